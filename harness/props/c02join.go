package props

import (
	"encoding/json"
	"fmt"
	"os"
	"sort"
	"strconv"
	"strings"
	"sync"

	"gaeaverif/harness/core"

	"github.com/XiaoMi/Gaea/models"
	"github.com/XiaoMi/Gaea/mysql"
	"github.com/XiaoMi/Gaea/parser"
	"github.com/XiaoMi/Gaea/parser/ast"
	"github.com/XiaoMi/Gaea/parser/opcode"
	"github.com/XiaoMi/Gaea/proxy/plan"
	"github.com/XiaoMi/Gaea/proxy/router"
	"github.com/XiaoMi/Gaea/proxy/sequence"
	"github.com/XiaoMi/Gaea/util"
)

// C02, join stream: a sharded table joined with its linked child table or with a
// global table, ON the sharding key.
//
//	(join JRULE META (j KIND WSIDE ONO TQ) QUERY COND (rows (PLACE k o a s t d)…) (rrows (PLACE k o a s t d)…))
//
// JRULE names the two tables (c02JoinRules), KIND = inner | left, WSIDE = 0 | 1: the
// side whose columns k, o the WHERE condition names (the routed, sharded table),
// ONO = t: ON a.k = b.k AND a.o = b.o, TQ = t: the tables have no alias and the columns are written
// table.column. QUERY is a statement over the columns
// 0…5 (left table, alias a) and 6…11 (right table, alias b), every column reference
// written alias.column. rows / rrows: the rows of the left / right table with the
// sub-table the real rule places their key in (PLACE -1: a global table, stored
// on every slice).
//
// Exec builds the real plan and runs ExecuteIn over an executor that evaluates
// every rewritten per-table statement on the physical tables its text names (so
// that a rewriting that pairs sub-tables with different indexes, or forgets one
// of the two names, shows).

type c02JoinRule struct {
	name   string
	left   string
	right  string
	wside  int // 0: WHERE names a.k / a.o, 1: b.k / b.o
	global int // -1: none, 0 / 1: that side is the global table
	routed c01Rule
}

var c02JoinRange = c01Rule{name: "jp", table: "t_jp", key: "k", db: "db_ks", numeric: true, limit: 100, tables: 4}
var c02JoinRangeChild = c01Rule{name: "jc", table: "t_jc", key: "k", db: "db_ks", numeric: true, limit: 100, tables: 4}
var c02JoinHash = c01Rule{name: "jh", table: "t_jh", key: "k", db: "db_ks", numeric: true}

var c02JoinRules = []c02JoinRule{
	{name: "plink", left: "t_jp", right: "t_jc", wside: 0, global: -1, routed: c02JoinRange},
	{name: "clink", left: "t_jc", right: "t_jp", wside: 0, global: -1, routed: c02JoinRangeChild},
	{name: "hlink", left: "t_jh", right: "t_jhc", wside: 0, global: -1, routed: c02JoinHash},
	{name: "pglob", left: "t_jp", right: "t_jg", wside: 0, global: 1, routed: c02JoinRange},
	{name: "hglob", left: "t_jh", right: "t_jg", wside: 0, global: 1, routed: c02JoinHash},
	{name: "globh", left: "t_jg", right: "t_jh", wside: 1, global: 0, routed: c02JoinHash},
}

func c02JoinRuleByName(n string) *c02JoinRule {
	for i := range c02JoinRules {
		if c02JoinRules[i].name == n {
			return &c02JoinRules[i]
		}
	}
	return nil
}

var (
	c02jOnce   sync.Once
	c02jRouter *router.Router
	c02jErr    error
)

func c02JoinNamespace() string {
	return `{"name":"ns_c02j","online":true,"allowed_dbs":{"db_ks":true},"default_phy_dbs":{"db_ks":"db_ks"},
"slices":[{"name":"slice-0","user_name":"root","password":"root","master":"127.0.0.1:3306","capacity":4,"max_capacity":8,"idle_timeout":3600},
{"name":"slice-1","user_name":"root","password":"root","master":"127.0.0.1:3307","capacity":4,"max_capacity":8,"idle_timeout":3600}],
"shard_rules":[
{"db":"db_ks","table":"t_jp","type":"range","key":"k","locations":[2,2],"slices":["slice-0","slice-1"],"table_row_limit":100},
{"db":"db_ks","table":"t_jc","type":"linked","key":"k","parent_table":"t_jp"},
{"db":"db_ks","table":"t_jh","type":"hash","key":"k","locations":[2,2],"slices":["slice-0","slice-1"]},
{"db":"db_ks","table":"t_jhc","type":"linked","key":"k","parent_table":"t_jh"},
{"db":"db_ks","table":"t_jg","type":"global","locations":[2,2],"slices":["slice-0","slice-1"]}],
"users":[{"user_name":"u","password":"p","namespace":"ns_c02j","rw_flag":2,"rw_split":1}],"default_slice":"slice-0"}`
}

func c02JoinGetRouter() (*router.Router, error) {
	c02jOnce.Do(func() {
		ns := &models.Namespace{}
		if err := json.Unmarshal([]byte(c02JoinNamespace()), ns); err != nil {
			c02jErr = err
			return
		}
		c02jRouter, c02jErr = router.NewRouter(ns)
	})
	return c02jRouter, c02jErr
}

// ---- rendering ---------------------------------------------------------------

// the qualifiers of the two tables in a statement: their aliases a / b, or the table names
type c02JoinNames struct{ l, r string }

// column n of the joined row / a select alias
func (jn c02JoinNames) name(n int64) string {
	switch {
	case n >= 0 && int(n) < len(c02Cols):
		return jn.l + "." + c02Cols[n]
	case n >= 0 && int(n) < 2*len(c02Cols):
		return jn.r + "." + c02Cols[int(n)-len(c02Cols)]
	}
	return "x" + strconv.FormatInt(n, 10)
}

func (jn c02JoinNames) aggSQL(kind, arg core.Sexp, distinct bool) string {
	a := "*"
	if arg.Atom != "star" {
		a = jn.name(arg.Int())
	}
	d := ""
	if distinct {
		d = "DISTINCT "
	}
	return strings.ToUpper(kind.Atom) + "(" + d + a + ")"
}

func (jn c02JoinNames) bySQL(b core.Sexp) string {
	switch b.Head() {
	case "name":
		return jn.name(b.Nth(1).Int())
	case "agg":
		return jn.aggSQL(b.Nth(1), b.Nth(2), b.Nth(3).Bool())
	case "pos":
		return strconv.FormatInt(b.Nth(1).Int(), 10)
	}
	panic("c02: bad by item " + b.String())
}

func c02JoinSQL(jr *c02JoinRule, spec, q, cond core.Sexp) string {
	jn := c02JoinNames{"a", "b"}
	las, ras := " a", " b"
	if spec.Nth(4).Bool() { // table names instead of aliases
		jn = c02JoinNames{jr.left, jr.right}
		las, ras = "", ""
	}
	var sb strings.Builder
	sb.WriteString("SELECT ")
	if q.Nth(1).Bool() {
		sb.WriteString("DISTINCT ")
	}
	for i, f := range q.Nth(2).List {
		if i > 0 {
			sb.WriteString(", ")
		}
		switch f.Head() {
		case "star":
			sb.WriteString("*")
		case "col":
			sb.WriteString(jn.name(f.Nth(1).Int()))
			if f.Nth(2).Atom != "-" {
				sb.WriteString(" AS " + jn.name(f.Nth(2).Int()))
			}
		case "agg":
			sb.WriteString(jn.aggSQL(f.Nth(1), f.Nth(2), f.Nth(3).Bool()))
			if f.Nth(4).Atom != "-" {
				sb.WriteString(" AS " + jn.name(f.Nth(4).Int()))
			}
		default:
			panic("c02: bad field " + f.String())
		}
	}
	sb.WriteString(" FROM " + jr.left + las)
	if spec.Nth(1).Atom == "left" {
		sb.WriteString(" LEFT JOIN ")
	} else {
		sb.WriteString(" JOIN ")
	}
	sb.WriteString(jr.right + ras + " ON " + jn.l + ".k = " + jn.r + ".k")
	if spec.Nth(3).Bool() {
		sb.WriteString(" AND " + jn.l + ".o = " + jn.r + ".o")
	}
	if cond.Atom != "none" {
		al := jn.l
		if spec.Nth(2).Int() == 1 {
			al = jn.r
		}
		sb.WriteString(" WHERE " + c01Render(cond, al+".k", al+".o"))
	}
	if g := q.Nth(3); g.Atom != "none" {
		sb.WriteString(" GROUP BY ")
		for i, b := range g.List[1:] {
			if i > 0 {
				sb.WriteString(", ")
			}
			sb.WriteString(jn.bySQL(b))
		}
	}
	if os := q.Nth(4).List; len(os) > 0 {
		sb.WriteString(" ORDER BY ")
		for i, o := range os {
			if i > 0 {
				sb.WriteString(", ")
			}
			sb.WriteString(jn.bySQL(o.Nth(0)))
			if o.Nth(1).Bool() {
				sb.WriteString(" DESC")
			}
		}
	}
	if l := q.Nth(5); l.Atom != "none" {
		c, o := l.Nth(2).Atom, l.Nth(3).Atom
		switch l.Nth(1).Int() {
		case 0:
			sb.WriteString(" LIMIT " + c)
		case 1:
			sb.WriteString(" LIMIT " + o + ", " + c)
		default:
			sb.WriteString(" LIMIT " + c + " OFFSET " + o)
		}
	}
	return sb.String()
}

// ---- the backend: joins ----------------------------------------------------------

// the physical tables: logical name → sub-table index → rows (index -1: the one copy of a global table)
type c02JoinData map[string]map[int][]c02Row

type c02JoinSide struct {
	quals []string
	rows  []c02Row
	idx   int
}

func (d c02JoinData) side(ts *ast.TableSource) (*c02JoinSide, error) {
	tn, ok := ts.Source.(*ast.TableName)
	if !ok {
		return nil, fmt.Errorf("table source %T", ts.Source)
	}
	phys := tn.Name.L
	s := &c02JoinSide{idx: -1}
	if ts.AsName.L != "" {
		s.quals = []string{ts.AsName.L}
	} else {
		s.quals = []string{phys}
	}
	if t, ok := d[phys]; ok {
		// a table without sub-tables: only a global table may be named like that
		rows, ok := t[-1]
		if !ok {
			return nil, fmt.Errorf("table %s does not exist (sharded table named without its sub-table)", phys)
		}
		s.rows = rows
		return s, nil
	}
	if m := c02TableSuffix.FindStringSubmatch(phys); m != nil {
		if t, ok := d[m[1]]; ok {
			idx, _ := strconv.Atoi(m[2])
			if _, glob := t[-1]; glob {
				return nil, fmt.Errorf("table %s does not exist (global table with a sub-table suffix)", phys)
			}
			s.rows = t[idx]
			s.idx = idx
			return s, nil
		}
	}
	return nil, fmt.Errorf("table %s does not exist", phys)
}

func c02EvalOn(e ast.ExprNode, sc c02Scope, row c02Row) (bool, error) {
	switch x := e.(type) {
	case *ast.ParenthesesExpr:
		return c02EvalOn(x.Expr, sc, row)
	case *ast.BinaryOperationExpr:
		switch x.Op {
		case opcode.LogicAnd:
			l, err := c02EvalOn(x.L, sc, row)
			if err != nil {
				return false, err
			}
			r, err := c02EvalOn(x.R, sc, row)
			return l && r, err
		case opcode.EQ:
			lc, ok1 := x.L.(*ast.ColumnNameExpr)
			rc, ok2 := x.R.(*ast.ColumnNameExpr)
			if !ok1 || !ok2 {
				return false, fmt.Errorf("ON: not a comparison of two columns")
			}
			li, err := sc.resolve(lc)
			if err != nil {
				return false, err
			}
			ri, err := sc.resolve(rc)
			if err != nil {
				return false, err
			}
			a, b := row[li], row[ri]
			if a.kind == 'n' || b.kind == 'n' {
				return false, nil
			}
			return a.kind == b.kind && c02Cmp(a, b) == 0, nil
		}
	}
	return false, fmt.Errorf("ON: unsupported expression %T", e)
}

// c02EvalJoinSelect evaluates `SELECT … FROM l [AS a] [LEFT] JOIN r [AS b] ON … …` on the
// physical tables; it returns the index of the sub-table(s) the statement names.
func c02EvalJoinSelect(stmt *ast.SelectStmt, d c02JoinData, applyLimit bool) (*c02Result, int, error) {
	if stmt.From == nil || stmt.From.TableRefs == nil {
		return nil, 0, fmt.Errorf("no FROM")
	}
	j := stmt.From.TableRefs
	lts, ok1 := j.Left.(*ast.TableSource)
	rts, ok2 := j.Right.(*ast.TableSource)
	if !ok1 || !ok2 || j.On == nil {
		return nil, 0, fmt.Errorf("not a two-table join with ON")
	}
	if j.Tp != ast.CrossJoin && j.Tp != ast.LeftJoin {
		return nil, 0, fmt.Errorf("join type %v", j.Tp)
	}
	ls, err := d.side(lts)
	if err != nil {
		return nil, 0, err
	}
	rs, err := d.side(rts)
	if err != nil {
		return nil, 0, err
	}
	if ls.quals[0] == rs.quals[0] {
		return nil, 0, fmt.Errorf("not unique table/alias %s", ls.quals[0])
	}
	sc := append(c02TableScope(ls.quals), c02TableScope(rs.quals)...)
	var rows []c02Row
	nulls := make(c02Row, len(c02Cols))
	for i := range nulls {
		nulls[i] = c02Null
	}
	for _, l := range ls.rows {
		matched := false
		for _, r := range rs.rows {
			row := append(append(c02Row{}, l...), r...)
			ok, err := c02EvalOn(j.On.Expr, sc, row)
			if err != nil {
				return nil, 0, err
			}
			if ok {
				matched = true
				rows = append(rows, row)
			}
		}
		if !matched && j.Tp == ast.LeftJoin {
			rows = append(rows, append(append(c02Row{}, l...), nulls...))
		}
	}
	// WHERE names the columns k, o of one table
	wk := 0
	if stmt.Where != nil {
		side, err := c02WhereSide(stmt.Where, ls.quals[0], rs.quals[0])
		if err != nil {
			return nil, 0, err
		}
		if side == 1 {
			wk = len(c02Cols)
		}
	}
	res, err := c02EvalSelectScope(stmt, rows, applyLimit, sc, wk)
	idx := ls.idx
	if idx < 0 {
		idx = rs.idx
	}
	return res, idx, err
}

type c02QualVisitor struct {
	quals map[string]bool
	bare  bool
}

func (v *c02QualVisitor) Enter(n ast.Node) (ast.Node, bool) {
	if c, ok := n.(*ast.ColumnNameExpr); ok {
		if c.Name.Table.L == "" {
			v.bare = true
		} else {
			v.quals[c.Name.Table.L] = true
		}
	}
	return n, false
}
func (v *c02QualVisitor) Leave(n ast.Node) (ast.Node, bool) { return n, true }

func c02WhereSide(e ast.ExprNode, lq, rq string) (int, error) {
	v := &c02QualVisitor{quals: map[string]bool{}}
	e.Accept(v)
	if v.bare {
		return 0, fmt.Errorf("column k in WHERE is ambiguous")
	}
	switch {
	case len(v.quals) == 0 || (len(v.quals) == 1 && v.quals[lq]):
		return 0, nil
	case len(v.quals) == 1 && v.quals[rq]:
		return 1, nil
	}
	return 0, fmt.Errorf("WHERE names an unknown table or both tables")
}

type c02JoinExecutor struct {
	data c02JoinData
	err  error
}

func (e *c02JoinExecutor) run(sql string) (*mysql.Result, int, error) {
	node, err := parser.ParseSQL(sql)
	if err != nil {
		return nil, 0, fmt.Errorf("rewritten statement does not parse: %v", err)
	}
	stmt, ok := node.(*ast.SelectStmt)
	if !ok {
		return nil, 0, fmt.Errorf("unexpected statement %T", node)
	}
	res, idx, err := c02EvalJoinSelect(stmt, e.data, true)
	if err != nil {
		return nil, 0, err
	}
	rs := &mysql.Resultset{FieldNames: map[string]int{}}
	for i, it := range res.items {
		f := &mysql.Field{Name: []byte(it.name)}
		switch c02ItemType(it) {
		case 'i':
			f.Type = mysql.TypeLonglong
		case 's':
			f.Type = mysql.TypeVarString
		case 'd':
			f.Type = mysql.TypeNewDecimal
		}
		rs.Fields = append(rs.Fields, f)
		rs.FieldNames[it.name] = i
	}
	for _, o := range res.rows {
		var rd []byte
		for _, v := range o.vis {
			if v.kind == 'n' {
				rd = append(rd, 0xfb)
			} else {
				rd = mysql.AppendLenEncStringBytes(rd, c02Text(v))
			}
		}
		vals, err := mysql.RowData(rd).ParseText(rs.Fields)
		if err != nil {
			return nil, 0, fmt.Errorf("ParseText: %v", err)
		}
		rs.RowDatas = append(rs.RowDatas, rd)
		rs.Values = append(rs.Values, vals)
	}
	return &mysql.Result{Status: 2, Resultset: rs}, idx, nil
}

func (e *c02JoinExecutor) ExecuteSQL(ctx *util.RequestContext, slice, db, sql string) (*mysql.Result, error) {
	r, _, err := e.run(sql)
	return r, err
}

func (e *c02JoinExecutor) ExecuteSQLs(ctx *util.RequestContext, sqls map[string]map[string][]string) ([]*mysql.Result, error) {
	type one struct {
		idx int
		r   *mysql.Result
	}
	var rs []one
	for _, dbs := range sqls {
		for _, list := range dbs {
			for _, sql := range list {
				if os.Getenv("VERIF_DEBUG_SQL") != "" {
					fmt.Fprintln(os.Stderr, "shard sql:", sql)
				}
				r, idx, err := e.run(sql)
				if err != nil {
					e.err = err
					return nil, err
				}
				rs = append(rs, one{idx, r})
			}
		}
	}
	sort.SliceStable(rs, func(i, j int) bool { return rs[i].idx < rs[j].idx })
	out := make([]*mysql.Result, len(rs))
	for i, x := range rs {
		out[i] = x.r
	}
	return out, nil
}
func (e *c02JoinExecutor) SetLastInsertID(uint64) {}
func (e *c02JoinExecutor) GetLastInsertID() uint64 { return 0 }
func (e *c02JoinExecutor) HandleSet(*util.RequestContext, string, *ast.SetStmt) (*mysql.Result, error) {
	return nil, nil
}

// rows of one table: sub-table index → rows, and all rows in sub-table order
func c02JoinTable(e core.Sexp) map[int][]c02Row {
	t, _ := c02ParseRows(e)
	if t == nil {
		t = map[int][]c02Row{}
	}
	return t
}

func c02Join(in core.Sexp) string {
	rt, err := c02JoinGetRouter()
	if err != nil {
		return "setup-error"
	}
	jr := c02JoinRuleByName(in.Nth(1).Atom)
	if jr == nil {
		return "bad-rule"
	}
	spec, q, cond := in.Nth(3), in.Nth(4), in.Nth(5)
	sql := c02JoinSQL(jr, spec, q, cond)
	if os.Getenv("VERIF_DEBUG_SQL") != "" {
		fmt.Fprintln(os.Stderr, "sql:", sql)
	}
	node, err := parser.ParseSQL(sql)
	if err != nil {
		return "(parse-error " + core.Text(sql).String() + ")"
	}
	lt, rtab := c02JoinTable(in.Nth(6)), c02JoinTable(in.Nth(7))
	data := c02JoinData{jr.left: lt, jr.right: rtab}
	if jr.global >= 0 {
		// the statement names a table of rows with PLACE -1 without a sub-table suffix
		g := jr.right
		if jr.global == 0 {
			g = jr.left
		}
		if _, ok := data[g][-1]; !ok {
			data[g][-1] = nil
		}
	}
	// the reference: the same statement, without LIMIT, on one database holding every row of both tables
	all := func(t map[int][]c02Row) map[int][]c02Row {
		var idxs []int
		for i := range t {
			idxs = append(idxs, i)
		}
		sort.Ints(idxs)
		var rows []c02Row
		for _, i := range idxs {
			rows = append(rows, t[i]...)
		}
		return map[int][]c02Row{-1: rows}
	}
	refNode, _ := parser.ParseSQL(sql)
	ref, _, err := c02EvalJoinSelect(refNode.(*ast.SelectStmt), c02JoinData{jr.left: all(lt), jr.right: all(rtab)}, false)
	if err != nil {
		if os.Getenv("VERIF_DEBUG_SQL") != "" {
			fmt.Fprintln(os.Stderr, "unsupported:", err)
		}
		return "unsupported"
	}
	p, err := plan.BuildPlan(node, map[string]string{"db_ks": "db_ks"}, "db_ks", sql, rt, sequence.NewSequenceManager(), nil)
	if err != nil {
		if os.Getenv("VERIF_DEBUG_SQL") != "" {
			fmt.Fprintln(os.Stderr, "plan error:", err)
		}
		return "err"
	}
	ex := &c02JoinExecutor{data: data}
	res, err := p.ExecuteIn(util.NewRequestContext(), ex)
	if err != nil {
		if os.Getenv("VERIF_DEBUG_SQL") != "" {
			fmt.Fprintln(os.Stderr, "exec error:", err)
		}
		if ex.err != nil {
			return "(executor-error " + core.Text(ex.err.Error()).String() + ")"
		}
		return "err"
	}
	if res == nil || res.Resultset == nil {
		return "(no-resultset)"
	}
	var out [][]c02Val
	for _, vs := range res.Values {
		row := make([]c02Val, len(vs))
		for i, v := range vs {
			x, ok := c02FromGo(v)
			if !ok {
				return fmt.Sprintf("(bad-value %T)", v)
			}
			row[i] = x
		}
		out = append(out, row)
	}
	if len(res.RowDatas) != len(res.Values) {
		return fmt.Sprintf("(rowdata-mismatch %d %d)", len(res.RowDatas), len(res.Values))
	}
	hasLimit, off, cnt := c02Limit(q)
	segs := c02Canon(out, ref.rows, hasLimit, off, cnt)
	return "(ok " + strings.Join(append([]string{strconv.Itoa(len(res.Fields))}, segs...), " ") + ")"
}

// ---- generator -----------------------------------------------------------------

// c02Requalify moves every column reference c (0…5) of a single-table statement to
// the left (c) or the right table (c+6), one choice per column and statement
func c02Requalify(q core.Sexp, off []int64) core.Sexp {
	col := func(c core.Sexp) core.Sexp {
		n := c.Int()
		if n >= 0 && int(n) < len(off) {
			return core.I(n + off[n])
		}
		return c
	}
	by := func(b core.Sexp) core.Sexp {
		switch b.Head() {
		case "name":
			return core.L(core.A("name"), col(b.Nth(1)))
		case "agg":
			arg := b.Nth(2)
			if arg.Atom != "star" {
				arg = col(arg)
			}
			return core.L(core.A("agg"), b.Nth(1), arg, b.Nth(3))
		}
		return b
	}
	var fields []core.Sexp
	for _, f := range q.Nth(2).List {
		switch f.Head() {
		case "col":
			fields = append(fields, core.L(core.A("col"), col(f.Nth(1)), f.Nth(2)))
		case "agg":
			arg := f.Nth(2)
			if arg.Atom != "star" {
				arg = col(arg)
			}
			fields = append(fields, core.L(core.A("agg"), f.Nth(1), arg, f.Nth(3), f.Nth(4)))
		default:
			fields = append(fields, f)
		}
	}
	group := q.Nth(3)
	if group.Atom != "none" {
		gs := []core.Sexp{core.A("group")}
		for _, b := range group.List[1:] {
			gs = append(gs, by(b))
		}
		group = core.L(gs...)
	}
	var order []core.Sexp
	for _, o := range q.Nth(4).List {
		order = append(order, core.L(by(o.Nth(0)), o.Nth(1)))
	}
	return core.L(core.A("q"), q.Nth(1), core.L(fields...), group, core.L(order...), q.Nth(5))
}

// rows of the second table: keys of the first table (so that rows join, several
// per key now and then) and a few others, placed by `place` (nil: a global table)
func c02GenJoinRows(g *core.Gen, head string, keys []int64, pts []int64, max int, place func(int64) (int, bool)) core.Sexp {
	rows := []core.Sexp{core.A(head)}
	n := g.Intn(max + 1)
	for j := 0; j < n; j++ {
		var k int64
		if len(keys) > 0 && g.Intn(4) != 0 {
			k = core.Pick(g, keys)
		} else {
			k = core.Pick(g, pts) + int64(g.Intn(3)) - 1
		}
		if k < 0 {
			continue
		}
		idx := -1
		if place != nil {
			i, ok := place(k)
			if !ok {
				continue
			}
			idx = i
		}
		o := int64(g.Intn(4))
		if g.Intn(3) == 0 {
			o = k
		}
		a, s, t, d := core.A("n"), core.A("n"), core.A("n"), core.A("n")
		if g.Intn(5) != 0 {
			a = core.I(core.Pick(g, c02AVals))
		}
		if g.Intn(6) != 0 {
			s = core.Text(core.Pick(g, c02SVals))
		}
		if g.Intn(4) != 0 {
			t = core.Text(core.Pick(g, c02TVals))
		}
		if g.Intn(5) != 0 {
			d = core.I(core.Pick(g, c02DVals))
		}
		rows = append(rows, core.L(core.I(int64(idx)), core.I(k), core.I(o), a, s, t, d))
	}
	return core.L(rows...)
}

// c02MirrorColumns: a projection now and then also selects the column of the same name of the
// other table (a.s next to b.s), so that a column is told from its namesake by the qualifier only
func c02MirrorColumns(g *core.Gen, q core.Sexp, qg *c02QGen) core.Sexp {
	if q.Nth(3).Atom != "none" || g.Intn(3) != 0 {
		return q
	}
	fields := q.Nth(2).List
	for _, f := range fields {
		if f.Head() != "col" {
			return q
		}
	}
	n := int64(len(c02Cols))
	out := append([]core.Sexp{}, fields...)
	for _, f := range fields {
		if g.Intn(2) == 0 {
			c := f.Nth(1).Int()
			out = append(out, core.L(core.A("col"), core.I((c+n)%(2*n)), qg.alias()))
		}
	}
	if len(out) == len(fields) {
		return q
	}
	qg.tags = append(qg.tags, "join-namesake-columns")
	return core.L(core.A("q"), q.Nth(1), core.L(out...), q.Nth(3), q.Nth(4), q.Nth(5))
}

func c02HasOther(c core.Sexp) bool {
	switch c.Head() {
	case "other":
		return true
	case "and", "or":
		return c02HasOther(c.Nth(1)) || c02HasOther(c.Nth(2))
	case "par":
		return c02HasOther(c.Nth(1))
	}
	return false
}

func c02HasAggBy(q core.Sexp) bool {
	for _, o := range q.Nth(4).List {
		if o.Nth(0).Head() == "agg" {
			return true
		}
	}
	return false
}

func genC02Join(g *core.Gen, n int) {
	rt, err := c02JoinGetRouter()
	if err != nil {
		panic(err)
	}
	for i := 0; i < n; i++ {
		jr := &c02JoinRules[g.Intn(len(c02JoinRules))]
		r := &jr.routed
		rule := rt.GetRule(r.db, r.table)
		ctx := &c01Ctx{r: r, rule: rule, pts: c01Points(r)}
		qg := &c02QGen{g: g}
		var q core.Sexp
		switch x := g.Intn(20); {
		case x < 8:
			q = qg.plain()
		case x < 11:
			q = qg.aggOnly()
		default:
			q = qg.groupBy()
		}
		off := make([]int64, len(c02Cols))
		for c := range off {
			if g.Intn(2) == 0 {
				off[c] = int64(len(c02Cols))
			}
		}
		q = c02Requalify(q, off)
		q = c02MirrorColumns(g, q, qg)
		kind := "inner"
		if jr.global != 0 && g.Intn(3) == 0 {
			kind = "left"
		}
		ono := g.Intn(4) == 0
		cond := core.A("none")
		if g.Intn(3) != 0 {
			cond = c05Restrict(g, ctx.genCond(g, g.Intn(3)))
			qg.tags = append(qg.tags, "where")
		}
		place := func(k int64) (int, bool) {
			var key interface{} = k
			idx, err := c01Find(rule, key)
			if err != nil || !c02HasIndex(rule.GetSubTableIndexes(), idx) {
				return 0, false
			}
			return idx, true
		}
		// the sharded (routed) table first, then the other one with its keys
		sharded := c02GenRows(g, ctx, g.Scale(8, 12))
		var keys []int64
		for _, row := range sharded.List[1:] {
			keys = append(keys, row.Nth(1).Int())
		}
		var other core.Sexp
		if jr.global >= 0 {
			other = c02GenJoinRows(g, "rows", keys, ctx.pts, g.Scale(7, 10), nil)
		} else {
			other = c02GenJoinRows(g, "rows", keys, ctx.pts, g.Scale(8, 12), place)
		}
		left, right := sharded, other
		if jr.wside == 1 {
			left, right = other, sharded
		}
		right = core.L(append([]core.Sexp{core.A("rrows")}, right.List[1:]...)...)
		left = core.L(append([]core.Sexp{core.A("rows")}, left.List[1:]...)...)
		// the table names instead of aliases; not where the pinned planner leaves a table-qualified
		// column unrewritten (below an aggregate function in ORDER BY, inside the opaque predicates)
		tq := g.Intn(4) == 0 && !c02HasOther(cond) && !c02HasAggBy(q)
		spec := core.L(core.A("j"), core.A(kind), core.I(int64(jr.wside)), core.B(ono), core.B(tq))
		in := core.L(core.A("join"), core.A(jr.name), c01Meta(rule), spec, q, cond, left, right)
		g.Emit(in, append(qg.tags, "join", "join-rule="+jr.name, "join-kind="+kind, "join-table-names="+strconv.FormatBool(tq))...)
	}
}
