package props

import (
	"encoding/binary"
	"math/rand"
	"strings"

	"gaeaverif/harness/core"

	"github.com/XiaoMi/Gaea/mysql"
)

// Generator of C38: scripts of well-formed traffic with one packet mutated.
// Every random choice comes from the *rand.Rand handed in, so that the
// process-level replay (Extra) can regenerate the cases of a run.

type c38Case struct {
	in   core.Sexp
	tags []string
}

type c38Gen struct {
	r     *rand.Rand
	cases []c38Case
}

func (g *c38Gen) intn(n int) int { return g.r.Intn(n) }
func (g *c38Gen) bytesN(n int) []byte {
	b := make([]byte, n)
	g.r.Read(b)
	return b
}
func c38Pick[T any](g *c38Gen, xs []T) T { return xs[g.r.Intn(len(xs))] }

func (g *c38Gen) emit(in core.Sexp, tags ...string) {
	g.cases = append(g.cases, c38Case{in: in, tags: tags})
}

// ---- packets

type c38Param struct {
	tp       byte
	unsigned bool
	null     bool
	value    []byte
}

var c38FixedTypes = map[byte]int{1: 1, 2: 2, 13: 2, 9: 4, 3: 4, 8: 8, 4: 4, 5: 8}
var c38StrTypes = []byte{0, 0xf6, 15, 16, 0xf7, 0xf8, 0xf9, 0xfa, 0xfb, 0xfc, 0xfd, 0xfe, 0xff, 0xf5}
var c38AllTypes = []byte{1, 2, 13, 9, 3, 8, 4, 5, 6, 10, 14, 11, 7, 12, 0, 0xf6, 15, 16, 0xf7, 0xf8, 0xf9, 0xfa, 0xfb, 0xfc, 0xfd, 0xfe, 0xff, 0xf5}
var c38UnknownTypes = []byte{17, 18, 19, 100, 0xf4, 0x80}

func (g *c38Gen) param() c38Param {
	p := c38Param{tp: c38Pick(g, c38AllTypes), unsigned: g.intn(3) == 0, null: g.intn(8) == 0}
	if g.intn(40) == 0 {
		p.tp = c38Pick(g, c38UnknownTypes)
	}
	if w, ok := c38FixedTypes[p.tp]; ok {
		p.value = g.bytesN(w)
		if (p.tp == 4 || p.tp == 5) && g.intn(5) == 0 {
			// NaN and the infinities are rejected by bindStmtArgs
			if p.tp == 4 {
				p.value = c38Pick(g, [][]byte{{0, 0, 0x80, 0x7f}, {0, 0, 0x80, 0xff}, {0, 0, 0xc0, 0x7f}, {1, 0, 0x80, 0xff}, {0xff, 0xff, 0x7f, 0x7f}})
			} else {
				p.value = c38Pick(g, [][]byte{{0, 0, 0, 0, 0, 0, 0xf0, 0x7f}, {0, 0, 0, 0, 0, 0, 0xf0, 0xff}, {0, 0, 0, 0, 0, 0, 0xf8, 0x7f},
					{1, 0, 0, 0, 0, 0, 0xf0, 0xff}, {0xff, 0xff, 0xff, 0xff, 0xff, 0xff, 0xef, 0x7f}})
			}
		}
		return p
	}
	switch p.tp {
	case 6:
	case 10, 14:
		n := c38Pick(g, []int{0, 4, 7, 10, 4, 7, 1, 3, 5, 11, 255})
		p.value = append([]byte{byte(n)}, g.bytesN(n)...)
	case 11:
		n := c38Pick(g, []int{0, 1, 8, 12, 8, 12, 2, 7, 9, 13, 255})
		v := g.bytesN(n)
		if n > 0 && g.intn(2) == 0 {
			v[0] = byte(g.intn(2))
		}
		p.value = append([]byte{byte(n)}, v...)
	case 7, 12:
		n := c38Pick(g, []int{0, 4, 7, 11, 19, 26, 7, 11, 1, 5, 8, 12, 255})
		p.value = append([]byte{byte(n)}, g.bytesN(n)...)
	default: // strings
		switch g.intn(12) {
		case 0:
			p.value = []byte{0xfb} // NULL
		case 1:
			p.value = mysql.AppendLenEncStringBytes(nil, g.bytesN(251+g.intn(60)))
		default:
			p.value = mysql.AppendLenEncStringBytes(nil, g.bytesN(g.intn(12)))
		}
	}
	return p
}

func c38Execute(id uint32, flags byte, nparams int, bound byte, params []c38Param) []byte {
	d := []byte{mysql.ComStmtExecute}
	d = binary.LittleEndian.AppendUint32(d, id)
	d = append(d, flags)
	d = binary.LittleEndian.AppendUint32(d, 1)
	if nparams > 0 {
		bm := make([]byte, (nparams+7)>>3)
		for i, p := range params {
			if p.null && i < nparams {
				bm[i>>3] |= 1 << (uint(i) % 8)
			}
		}
		d = append(d, bm...)
		d = append(d, bound)
		if bound == 1 {
			for _, p := range params {
				f := byte(0)
				if p.unsigned {
					f = 0x80
				}
				d = append(d, p.tp, f)
			}
		}
		for _, p := range params {
			if !p.null {
				d = append(d, p.value...)
			}
		}
	}
	return d
}

func c38LongData(id uint32, param uint16, data []byte) []byte {
	d := []byte{mysql.ComStmtSendLongData}
	d = binary.LittleEndian.AppendUint32(d, id)
	d = binary.LittleEndian.AppendUint16(d, param)
	return append(d, data...)
}

func c38IDCmd(cmd byte, id uint32) []byte {
	return binary.LittleEndian.AppendUint32([]byte{cmd}, id)
}

var c38SQLWords = []string{"select", "a", "b1", "from", "t", "where", "id", "in", "and", "x_y", "limit", "set", "update", "values"}

func (g *c38Gen) prepareSQL(nparams int) []byte {
	s := "select "
	for i := 0; i < nparams; i++ {
		if i > 0 {
			s += c38Pick(g, []string{",", ", ", " and "})
		}
		if g.intn(3) == 0 {
			s += c38Pick(g, c38SQLWords) + "="
		}
		s += "?"
	}
	if nparams == 0 || g.intn(3) == 0 {
		s += " " + c38Pick(g, c38SQLWords) + " " + c38Pick(g, c38SQLWords)
	}
	if g.intn(6) == 0 {
		s += ";"
	}
	return append([]byte{mysql.ComStmtPrepare}, s...)
}

// c38SQLFrags are the pieces malformed statement texts are built from: comment
// introducers with and without the blank / newline / terminator they need, every
// quote character unterminated, hint and version-comment openers, separators, NUL
// and bytes that are not UTF-8, and a few words so that some texts reach the planner.
var c38SQLFrags = []string{
	"--", "--1", "--x", "-- ", "-- x\n", "--\n", "--\t", "#", "#x\n", "/*", "*/", "/**/", "/*!", "/*!40101 ", "/*!40101", "/*+ ", "/* x */",
	"/*master*/", "/*!999999 x */", "'", "\"", "`", "\\", "\\'", "(", ")", ";", ";;", ",", ".", "?", "@", "@@", "@`", "0x", "x'", "b'", "N'", "_utf8",
	"\x00", "\xff", "\xc3", "\xe4\xb8", " ", "\n", "\t", "\r", "select", "SELECT", "1", "from", "t", "where", "a=", "in", "set", "use", "show", "insert", "into",
	"values", "update", "delete", "begin", "commit", "explain", "prepare", "execute", "limit", "-", "+", "!", "~", "1e", "1.", ".1", "9223372036854775808",
}

// garbageSQL is a statement text of 1…7 fragments, sometimes opened by a
// leading-comment form (what StripLeadingComments / Preview see first).
func (g *c38Gen) garbageSQL() string {
	var b strings.Builder
	if g.intn(3) == 0 {
		b.WriteString(c38Pick(g, []string{"--", "--1", "--x", "-- ", "-- c\n", "#", "#c\n", "/*", "/**/", "/* c */", "/*!", "/*!40101 ", "/*+ x */", " ", "\n", ";"}))
	}
	n := 1 + g.intn(7)
	for i := 0; i < n; i++ {
		b.WriteString(c38Pick(g, c38SQLFrags))
		if g.intn(3) == 0 {
			b.WriteByte(' ')
		}
	}
	return b.String()
}

var c38Unknown = []byte{0, 5, 6, 7, 8, 9, 10, 11, 12, 13, 15, 16, 17, 18, 19, 20, 21, 28, 30, 31, 32, 0x7f, 0x80, 0xfe, 0xff}

type c38Stmt struct {
	id      uint32
	nparams int
	typed   bool // an execute with new-params-bound = 1 was sent
	closed  bool
}

// script builds a well-formed session; idx lists the packets a mutation may hit
// with the kind of each.
func (g *c38Gen) script() (pkts [][]byte, kinds []string) {
	add := func(kind string, p []byte) {
		pkts = append(pkts, p)
		kinds = append(kinds, kind)
	}
	var stmts []*c38Stmt
	nextID := uint32(0)
	steps := 3 + g.intn(9)
	for i := 0; i < steps; i++ {
		choice := g.intn(20)
		if len(stmts) == 0 && choice < 12 {
			choice = 12
		}
		switch {
		case choice < 6: // execute
			st := c38Pick(g, stmts)
			params := make([]c38Param, st.nparams)
			for j := range params {
				params[j] = g.param()
			}
			bound := byte(1)
			if st.typed && g.intn(3) == 0 {
				bound = 0
			}
			if bound == 1 {
				st.typed = true
			}
			add("execute", c38Execute(st.id, 0, st.nparams, bound, params))
		case choice < 8: // long data
			st := c38Pick(g, stmts)
			pid := uint16(0)
			if st.nparams > 0 {
				pid = uint16(g.intn(st.nparams))
			}
			add("longdata", c38LongData(st.id, pid, g.bytesN(g.intn(10))))
		case choice < 9:
			add("reset", c38IDCmd(mysql.ComStmtReset, c38Pick(g, stmts).id))
		case choice < 10:
			st := c38Pick(g, stmts)
			st.closed = true
			add("close", c38IDCmd(mysql.ComStmtClose, st.id))
		case choice < 12:
			add("ping", []byte{mysql.ComPing})
		case choice < 15: // prepare
			n := c38Pick(g, []int{0, 1, 1, 2, 2, 3, 4, 5, 7, 8, 9, 16, 17})
			if g.intn(60) == 0 {
				n = 64 + g.intn(3)
			}
			stmts = append(stmts, &c38Stmt{id: nextID, nparams: n})
			nextID++
			add("prepare", g.prepareSQL(n))
		case choice < 16:
			add("fieldlist", append(append([]byte{mysql.ComFieldList}, c38Pick(g, []string{"t1", "", "tbl_x", "a.b"})...), append([]byte{0}, c38Pick(g, []string{"", "%", "col%"})...)...))
		case choice < 17:
			add("initdb", append([]byte{mysql.ComInitDB}, c38Pick(g, []string{"db1", "DB1", "db2", "information_schema", "INFORMATION_SCHEMA", "Information_Schema", "information_schemb", ""})...))
		case choice < 18:
			if g.intn(3) == 0 {
				add("query", append([]byte{mysql.ComQuery}, c38Pick(g, []string{"select 1", "set autocommit=1", "show databases", "selec", ""})...))
			} else {
				add("query", append([]byte{mysql.ComQuery}, g.garbageSQL()...))
			}
		case choice < 19:
			if g.intn(2) == 0 {
				add("setoption", []byte{mysql.ComSetOption, byte(g.intn(2)), 0})
			} else {
				add("unknown", append([]byte{c38Pick(g, c38Unknown)}, g.bytesN(g.intn(4))...))
			}
		default:
			if g.intn(3) == 0 {
				add("quit", []byte{mysql.ComQuit})
			} else {
				add("empty", []byte{})
			}
		}
	}
	return
}

var c38Boundary = []byte{0, 1, 2, 0x7f, 0x80, 0xfa, 0xfb, 0xfc, 0xfd, 0xfe, 0xff}

// mutate returns a damaged copy of packet p of the given kind and the name of the mutation.
func (g *c38Gen) mutate(kind string, p []byte) ([]byte, string) {
	q := append([]byte{}, p...)
	if len(q) == 0 {
		return []byte{c38Pick(g, c38Unknown)}, "mut-fill"
	}
	switch g.intn(10) {
	case 0, 1, 2: // truncate
		return q[:g.intn(len(q))], "mut-trunc"
	case 3: // extend
		return append(q, g.bytesN(1+g.intn(4))...), "mut-extend"
	case 4, 5: // one byte to a boundary value
		if len(q) > 1 {
			q[1+g.intn(len(q)-1)] = c38Pick(g, c38Boundary)
		}
		return q, "mut-flip"
	case 6: // statement / parameter id out of range
		if len(q) >= 5 && (kind == "execute" || kind == "longdata" || kind == "reset" || kind == "close") {
			if kind == "longdata" && len(q) >= 7 && g.intn(2) == 0 {
				binary.LittleEndian.PutUint16(q[5:7], c38Pick(g, []uint16{1, 2, 9, 17, 255, 256, 0xffff}))
				return q, "mut-paramid"
			}
			id := binary.LittleEndian.Uint32(q[1:5])
			binary.LittleEndian.PutUint32(q[1:5], c38Pick(g, []uint32{id + 1, id + 7, 0xffffffff, 0x80000000, id + 256}))
			return q, "mut-stmtid"
		}
		return q[:len(q)-1], "mut-trunc"
	case 7: // drop every NUL (field list) / zero-length packet
		if kind == "fieldlist" {
			var o []byte
			for _, b := range q {
				if b != 0 {
					o = append(o, b)
				}
			}
			return o, "mut-nonul"
		}
		return []byte{}, "mut-empty"
	case 8: // a length byte one too large / 0xff / 0xfe with a huge length
		if len(q) > 12 {
			i := 11 + g.intn(len(q)-11)
			switch g.intn(3) {
			case 0:
				q[i]++
			case 1:
				q[i] = 0xff
			default:
				q = append(q[:i], append([]byte{0xfe, 0, 0, 0, 0, 0, 0, 0, c38Pick(g, []byte{0, 0x7f, 0x80, 0xff})}, q[i:]...)...)
			}
			return q, "mut-length"
		}
		return q[:g.intn(len(q))], "mut-trunc"
	default: // command byte
		q[0] = c38Pick(g, []byte{mysql.ComStmtExecute, mysql.ComStmtSendLongData, mysql.ComStmtReset, mysql.ComStmtClose, mysql.ComFieldList, mysql.ComInitDB, mysql.ComStmtFetch, 0x1f})
		return q, "mut-cmd"
	}
}

func c38SessSexp(pkts [][]byte) core.Sexp {
	xs := make([]core.Sexp, len(pkts))
	for i, p := range pkts {
		xs[i] = core.Hex(p)
	}
	return core.L(core.A("sess"), core.Text("db1"), core.L(xs...))
}

// ---- handshake

type c38HS struct {
	caps    uint32
	maxpkt  uint32
	coll    byte
	filler  []byte
	user    string
	auth    []byte
	authEnc int // 0 = by capability, 1 = force lenenc prefix form fc, 2 = fd, 3 = fe
	db      string
	plugin  string
}

func (h c38HS) encode() []byte {
	d := binary.LittleEndian.AppendUint32(nil, h.caps)
	d = binary.LittleEndian.AppendUint32(d, h.maxpkt)
	d = append(d, h.coll)
	d = append(d, h.filler...)
	d = append(d, h.user...)
	d = append(d, 0)
	if h.caps&(mysql.ClientSecureConnection|mysql.ClientPluginAuthLenencClientData) != 0 {
		switch h.authEnc {
		case 1:
			d = append(d, 0xfc, byte(len(h.auth)), byte(len(h.auth)>>8))
		case 2:
			d = append(d, 0xfd, byte(len(h.auth)), byte(len(h.auth)>>8), 0)
		case 3:
			d = append(d, 0xfe, byte(len(h.auth)), byte(len(h.auth)>>8), 0, 0, 0, 0, 0, 0)
		default:
			d = mysql.AppendLenEncInt(d, uint64(len(h.auth)))
		}
		d = append(d, h.auth...)
	} else {
		// length byte (read as a length-encoded integer and ignored), then NUL-terminated bytes
		d = append(d, byte(len(h.auth)))
		d = append(d, h.auth...)
		d = append(d, 0)
	}
	if h.caps&mysql.ClientConnectWithDB != 0 {
		d = append(d, h.db...)
		d = append(d, 0)
	}
	if h.caps&mysql.ClientPluginAuth != 0 {
		d = append(d, h.plugin...)
		d = append(d, 0)
	}
	return d
}

var c38Salt = []byte("abcdefghij0123456789")
var c38Plugins = []string{"", mysql.MysqlNativePassword, mysql.CachingSHA2Password}

func (g *c38Gen) handshake() (h c38HS, serverPlugin string, second []byte, hasSecond bool) {
	h.caps = mysql.ClientProtocol41 | mysql.ClientLongPassword | mysql.ClientTransactions
	for _, f := range []uint32{mysql.ClientSecureConnection, mysql.ClientPluginAuthLenencClientData, mysql.ClientConnectWithDB, mysql.ClientPluginAuth, mysql.ClientMultiStatements, mysql.ClientFoundRows} {
		if g.intn(2) == 0 {
			h.caps |= f
		}
	}
	h.maxpkt = c38Pick(g, []uint32{0, 1 << 24, 0xffffffff})
	h.coll = c38Pick(g, []byte{33, 45, 8, 63, 255, 0, 224})
	h.filler = make([]byte, 23)
	if g.intn(10) == 0 {
		g.r.Read(h.filler)
	}
	h.user = c38Pick(g, []string{"verif_plain", "verif_plain", "verif_hash", "verif_hash", "nobody", ""})
	alen := c38Pick(g, []int{0, 1, 19, 20, 20, 20, 21, 22, 31, 32, 33, 40, 64})
	if g.intn(4) == 0 {
		alen = g.intn(45)
	}
	h.auth = g.bytesN(alen)
	if g.intn(3) == 0 { // a correct proof
		switch h.user {
		case "verif_plain":
			h.auth = mysql.CalcPassword(c38Salt, []byte("plainpw"))
		case "verif_hash":
			h.auth = mysql.CalcPassword(c38Salt, []byte("hashpw"))
		}
	}
	if h.caps&(mysql.ClientSecureConnection|mysql.ClientPluginAuthLenencClientData) == 0 {
		for i := range h.auth { // NUL-terminated form
			if h.auth[i] == 0 {
				h.auth[i] = 1
			}
		}
	} else if g.intn(8) == 0 {
		h.authEnc = 1 + g.intn(3)
	}
	h.db = c38Pick(g, []string{"db1", "", "nodb"})
	h.plugin = c38Pick(g, c38Plugins)
	serverPlugin = c38Pick(g, []string{"", "", mysql.MysqlNativePassword, mysql.CachingSHA2Password})
	if g.intn(4) != 0 {
		hasSecond = true
		second = g.bytesN(c38Pick(g, []int{0, 20, 21, 32, 33, 5}))
	}
	return
}

func c38HsSexp(serverPlugin string, pkts [][]byte) core.Sexp {
	xs := make([]core.Sexp, len(pkts))
	for i, p := range pkts {
		xs[i] = core.Hex(p)
	}
	return core.L(core.A("hs"), core.Text(serverPlugin), core.Hex(c38Salt), core.L(xs...))
}

// c38Cases generates the cases of one run.
func c38Cases(r *rand.Rand, scale func(q, t int) int, full bool) []c38Case {
	g := &c38Gen{r: r}

	// --- sessions
	nScripts := scale(1200, 5000)
	for i := 0; i < nScripts; i++ {
		pkts, kinds := g.script()
		g.emit(c38SessSexp(pkts), "sess-wellformed")
		// candidates for a mutation: everything but prepare packets (their text must stay in the modelled alphabet)
		var cand []int
		for j, k := range kinds {
			if k != "prepare" {
				cand = append(cand, j)
			}
		}
		if len(cand) == 0 {
			continue
		}
		for m := 0; m < 4; m++ {
			mp := make([][]byte, len(pkts))
			copy(mp, pkts)
			j := c38Pick(g, cand)
			var name string
			mp[j], name = g.mutate(kinds[j], pkts[j])
			tags := []string{"sess-mutated", name, "hit-" + kinds[j]}
			if g.intn(5) == 0 { // a second damaged packet
				j2 := c38Pick(g, cand)
				mp[j2], _ = g.mutate(kinds[j2], mp[j2])
				tags = append(tags, "two-mutations")
			}
			g.emit(c38SessSexp(mp), tags...)
		}
	}
	// every truncation point of the packets of a few scripts
	nTrunc := scale(6, 60)
	for i := 0; i < nTrunc; i++ {
		pkts, kinds := g.script()
		for j := range pkts {
			if kinds[j] == "prepare" || len(pkts[j]) > 80 {
				continue
			}
			for cut := 0; cut < len(pkts[j]); cut++ {
				mp := make([][]byte, len(pkts))
				copy(mp, pkts)
				mp[j] = pkts[j][:cut]
				g.emit(c38SessSexp(mp), "sess-mutated", "every-truncation", "hit-"+kinds[j])
			}
		}
	}
	// single-statement scripts: every parameter type, every temporal length 0…13 with the payload cut at every point
	for _, tp := range append(append([]byte{}, c38AllTypes...), c38UnknownTypes...) {
		prep := append([]byte{mysql.ComStmtPrepare}, "select ?"...)
		for n := 0; n <= 13; n++ {
			val := append([]byte{byte(n)}, g.bytesN(n)...)
			for cut := 0; cut <= len(val); cut++ {
				if !full && cut != 0 && cut != len(val) && cut != len(val)-1 && cut != 1 {
					continue
				}
				ex := c38Execute(0, 0, 1, 1, []c38Param{{tp: tp, value: val[:cut]}})
				g.emit(c38SessSexp([][]byte{prep, ex, {mysql.ComPing}}), "sess-mutated", "type-sweep")
			}
		}
	}
	// long data on every parameter id around the count, then execute / reset / execute
	for n := 0; n <= 3; n++ {
		prep := g.prepareSQL(n)
		for pid := 0; pid <= n+1; pid++ {
			params := make([]c38Param, n)
			for j := range params {
				params[j] = c38Param{tp: c38Pick(g, []byte{3, 0xfd, 10, 8}), value: nil}
				switch params[j].tp {
				case 3:
					params[j].value = g.bytesN(4)
				case 8:
					params[j].value = g.bytesN(8)
				case 10:
					params[j].value = append([]byte{4}, g.bytesN(4)...)
				default:
					params[j].value = mysql.AppendLenEncStringBytes(nil, g.bytesN(3))
				}
			}
			ex := c38Execute(0, 0, n, 1, params)
			ld := c38LongData(0, uint16(pid), []byte("xy"))
			bad := c38Execute(0, 0, n, 1, params)
			if len(bad) > 12 {
				bad = bad[:len(bad)-1]
			}
			g.emit(c38SessSexp([][]byte{prep, ld, ld, ex, ld, bad, ld, ex, c38IDCmd(mysql.ComStmtReset, 0), ex}), "sess-wellformed", "longdata-sweep")
			g.emit(c38SessSexp([][]byte{prep, bad, ld, ex, ex}), "sess-mutated", "longdata-sweep")
			// cursor flag set: rejected after the lookup
			fl := c38Execute(0, 1, n, 1, params)
			g.emit(c38SessSexp([][]byte{prep, ld, fl, ld, ex}), "sess-mutated", "longdata-sweep")
		}
	}

	// --- handshakes
	nHs := scale(800, 4000)
	for i := 0; i < nHs; i++ {
		h, sp, second, hasSecond := g.handshake()
		p := h.encode()
		pk := [][]byte{p}
		if hasSecond {
			pk = append(pk, second)
		}
		g.emit(c38HsSexp(sp, pk), "hs-wellformed", "hs-user-"+h.user)
		switch g.intn(4) {
		case 0:
			q := p[:g.intn(len(p))]
			g.emit(c38HsSexp(sp, append([][]byte{q}, pk[1:]...)), "hs-mutated", "mut-trunc")
		case 1:
			q := append([]byte{}, p...)
			q[g.intn(len(q))] = c38Pick(g, c38Boundary)
			g.emit(c38HsSexp(sp, append([][]byte{q}, pk[1:]...)), "hs-mutated", "mut-flip")
		case 2: // oversized auth length
			h2 := h
			h2.caps |= mysql.ClientSecureConnection
			q := h2.encode()
			// the length prefix sits right after the user name's NUL
			at := 32 + len(h2.user) + 1
			if at < len(q) {
				q = append(q[:at], append(c38Pick(g, [][]byte{{0xfe, 0, 0, 0, 0, 0, 0, 0, 0x80}, {0xfe, 0xff, 0xff, 0xff, 0xff, 0xff, 0xff, 0xff, 0x7f}, {0xfd, 0xff, 0xff, 0xff}, {0xfc, 0xff, 0xff}, {0xfb}, {0xff}, {0xfa}}), q[at+1:]...)...)
			}
			g.emit(c38HsSexp(sp, append([][]byte{q}, pk[1:]...)), "hs-mutated", "mut-length")
		default:
		}
	}
	// every truncation point of a few handshakes
	for i := 0; i < scale(5, 40); i++ {
		h, sp, second, hasSecond := g.handshake()
		p := h.encode()
		for cut := 0; cut < len(p); cut++ {
			pk := [][]byte{p[:cut]}
			if hasSecond {
				pk = append(pk, second)
			}
			g.emit(c38HsSexp(sp, pk), "hs-mutated", "every-truncation")
		}
	}
	// auth responses of every length for both kinds of users, with and without an auth switch
	for _, user := range []string{"verif_plain", "verif_hash", "nobody"} {
		for alen := 0; alen <= 41; alen++ {
			h := c38HS{caps: mysql.ClientProtocol41 | mysql.ClientSecureConnection | mysql.ClientConnectWithDB, coll: 33, filler: make([]byte, 23), user: user, auth: g.bytesN(alen), db: "db1"}
			g.emit(c38HsSexp("", [][]byte{h.encode()}), "hs-wellformed", "auth-length-sweep", "hs-user-"+user)
			h.caps |= mysql.ClientPluginAuth
			h.plugin = mysql.MysqlNativePassword
			g.emit(c38HsSexp(mysql.CachingSHA2Password, [][]byte{h.encode(), g.bytesN(alen)}), "hs-wellformed", "auth-length-sweep", "hs-user-"+user)
			g.emit(c38HsSexp("", [][]byte{h.encode(), g.bytesN(alen)}), "hs-wellformed", "auth-length-sweep", "hs-user-"+user)
		}
	}

	// --- CheckHashPassword
	enc := []byte("850BF038CFFD848B10CDDCFD984AB2E4F20463D4")
	for l := 0; l <= 45; l++ {
		g.emit(core.L(core.A("chk"), core.Hex(g.bytesN(l)), core.Hex(enc)), "chk")
	}
	for _, e := range [][]byte{{}, []byte("zz"), []byte("850BF"), enc[:39]} {
		for _, l := range []int{0, 19, 20, 21, 40} {
			g.emit(core.L(core.A("chk"), core.Hex(g.bytesN(l)), core.Hex(e)), "chk")
		}
	}
	return g.cases
}

func genC38(g *core.Gen) {
	for _, c := range c38Cases(g.Rand, g.Scale, g.Tier != "quick") {
		g.Emit(c.in, c.tags...)
	}
	// several sessions sharing the packet buffer pool (c38_own.go); generated last, so that the
	// process-level replay (Extra) regenerates the cases above from the same seed
	genC38Own(g)
}
