package props

import (
	"gaeaverif/harness/core"
)

// C27 — fused replicas are not restored before their cool-down: histories of
// fuse events, probe rounds and clock advances through the real
// Slice.TryFuse / Slice.TryRecover (checkWithHardRecovery,
// checkWithGradualRecovery and both recovery strategies of node_fuse.go).

func init() {
	core.Register(&core.Property{
		ID: "C27",
		Rule: "histories (8–60 events; 150–400 for the penalty cap) of breaker firings, replica and master probe rounds and clock steps " +
			"(0…9 s, cool-down ±1, down-after ±1) under the hard and the gradual policy, with re-fuses right after a restore, probe outages, " +
			"replication lag and master outages mixed in, fuse/restore cycles that run during a master outage or without a master node; the real TryFuse/TryRecover run under a virtual clock; " +
			"non-trivial = some node changed status",
		Generate: genC27,
		Exec:     healthExec,
		Trivial:  healthTrivial,
		Extra:    healthExtra,
		Assumptions: []string{
			"time.Now and time.NewTicker are patched at run time (bytedance/mockey) to drive the real code with a virtual clock; one replica and one master per slice",
			"whether FuseStrategy.Trigger fires is an input (the sliding window is property C26)",
			"the check connection is a scripted fake implementing backend.PooledConnect; its pool stores time.Now().Unix() in SetLastChecked as connectionPoolImpl does",
		},
	})
}

func genC27(g *core.Gen) {
	base := hgProfile{pFuse: 0.16, pMaster: 0.10, pTick: 0.04, pProbeFail: 0.10, pMasterFail: 0.12, pSyncBad: 0.04, pSyncOdd: 0.03, pTrig: 0.85}
	n := g.Scale(2200, 9000)
	for i := 0; i < n; i++ {
		cfg := hgPickCfg(g, 0.95)
		pr := base
		switch g.Intn(6) {
		case 0: // calm: almost everything succeeds, the breaker fires often
			pr.pProbeFail, pr.pMasterFail, pr.pSyncBad, pr.pSyncOdd, pr.pFuse = 0.02, 0.0, 0.0, 0.0, 0.25
		case 1: // master outages
			pr.pMasterFail, pr.pMaster = 0.5, 0.2
		case 2: // flaky replica
			pr.pProbeFail = 0.3
		}
		if g.Intn(25) == 0 {
			pr.pBackwards = 0.05
		}
		h := newHgen(g, cfg, pr, hgPickT0(g))
		k := 8 + g.Intn(53)
		for j := 0; j < k; j++ {
			h.event()
		}
		h.emit("random")
	}
	// structured: fuse, wait for the restore with steady successful rounds, fuse again at once (bad recovery), …
	m := g.Scale(250, 1200)
	for i := 0; i < m; i++ {
		cfg := hgPickCfg(g, 1)
		cfg.hasMaster = true
		if g.Intn(3) != 0 {
			cfg.cool = core.Pick(g, []int64{0, 0, -1}) // gradual
		}
		// one case in three runs (partly) during a master outage: no master node at all, or the
		// master silent for down-after seconds; it may come back between two cycles
		outage := g.Intn(3) == 0
		if outage && g.Intn(3) == 0 {
			cfg.hasMaster = false
		}
		h := newHgen(g, cfg, hgProfile{pTrig: 1}, hgPickT0(g))
		masterEv := func(fail bool) {
			h.evs = append(h.evs, core.L(core.A("m"), core.I(h.now), h.probe(fail)))
		}
		if outage && cfg.hasMaster {
			if cfg.down > 0 {
				h.now += cfg.down
			}
			masterEv(true)
			h.tag("master-probe-fails")
		}
		cycles := 2 + g.Intn(5)
		for c := 0; c < cycles; c++ {
			h.now += core.Pick(g, []int64{0, 1, 4, 8, 9, 20})
			h.evs = append(h.evs, core.L(core.A("f"), core.I(h.now), core.A("conn"), core.B(true)))
			rounds := core.Pick(g, []int{1, 2, 6, 7, 10, 11, 12, 16, 22, 29})
			for r := 0; r < rounds; r++ {
				h.now += core.Pick(g, []int64{4, 4, 4, 4, 1, 5})
				fail := g.Intn(25) == 0
				h.evs = append(h.evs, core.L(core.A("r"), core.I(h.now), h.probe(fail), core.MustParse("(row (u 0) (s Yes) (s Yes))")))
				if g.Intn(30) == 0 {
					h.evs = append(h.evs, core.L(core.A("f"), core.I(h.now), core.A("conn"), core.B(true)))
				}
				if outage && cfg.hasMaster && g.Intn(12) == 0 {
					masterEv(g.Intn(2) == 0) // the master answers again, or stays silent
				}
			}
		}
		h.tag("fuse-fires")
		if outage {
			h.emit("fuse-restore-cycles", "master-outage")
		} else {
			h.emit("fuse-restore-cycles")
		}
	}
	// long runs of bad recoveries that reach the penalty cap of the gradual policy:
	// fuse, exactly as many successful rounds as the penalty in force (+0…2), fuse again within 2·PingPeriod
	l := g.Scale(5, 30)
	for i := 0; i < l; i++ {
		cfg := hgCfg{fuse: true, cool: 0, down: 32, sbm: core.Pick(g, []int64{0, 5}), hsql: g.Intn(2) == 0, hasMaster: true}
		h := newHgen(g, cfg, hgProfile{pTrig: 1}, hgPickT0(g))
		h.now += core.Pick(g, []int64{0, 4, 8})
		okq := core.MustParse("(row (u 0) (s Yes) (s Yes))")
		for c := 0; c < 14; c++ {
			h.evs = append(h.evs, core.L(core.A("f"), core.I(h.now), core.A("conn"), core.B(true)))
			need := 10 + c*(c+9)/2 // penalty(4+c) while the streak of bad recoveries lasts
			if need > 120 {
				need = 120
			}
			extra := 0
			if g.Intn(8) == 0 {
				extra = 1 + g.Intn(2)
			}
			if g.Intn(10) == 0 {
				need -= 1 + g.Intn(2) // fuse again while still down: no effect
			}
			for r := 0; r <= need+extra; r++ {
				h.now += 4
				h.evs = append(h.evs, core.L(core.A("r"), core.I(h.now), core.MustParse("(conn)"), okq))
			}
			h.now += core.Pick(g, []int64{0, 1, 4, 8, 8, 8})
			if g.Intn(12) == 0 {
				h.now += 1 // one second too late: not a bad recovery any more when the last round restored it
			}
		}
		h.tag("fuse-fires")
		h.emit("penalty-cap")
	}
}
