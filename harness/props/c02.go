package props

import (
	"bytes"
	"fmt"
	"os"
	"regexp"
	"sort"
	"strconv"
	"strings"

	"gaeaverif/harness/core"

	"github.com/XiaoMi/Gaea/mysql"
	"github.com/XiaoMi/Gaea/parser"
	"github.com/XiaoMi/Gaea/parser/ast"
	driver "github.com/XiaoMi/Gaea/parser/tidb-types/parser_driver"
	"github.com/XiaoMi/Gaea/proxy/plan"
	"github.com/XiaoMi/Gaea/proxy/sequence"
	"github.com/XiaoMi/Gaea/util"
	"github.com/shopspring/decimal"
)

// C02 — a cross-shard SELECT returns what one database holding all shards would return.
//
//	(sel RULE META QUERY COND (rows (PLACE k o a s t d)…))
//	(union RULE META ((QUERY COND)…) (ALL…) UORDER ULIMIT (rows …))   (see c02union.go)
//	(join JRULE META (j KIND WSIDE ONO) QUERY COND (rows …) (rrows …))  (see c02join.go)
//
//	QUERY  = (q DISTINCT (F…) GROUP (O…) LIMIT)
//	F      = (star) | (col C ALIAS) | (agg KIND ARG DISTINCT ALIAS)     ALIAS = - | 100… (rendered x100…)
//	GROUP  = none | (group B…)
//	B      = (name N) | (agg KIND ARG DISTINCT) | (pos N)               N = column 0…5 or an alias
//	O      = (B DESC)
//	LIMIT  = none | (lim FORM COUNT OFFSET)                              FORM 0: LIMIT c, 1: LIMIT o, c, 2: LIMIT c OFFSET o
//	COND   = none | a C01 condition tree over the columns k and o
//	row    = PLACE k o A S T D    A = int | n,  S, T = hex | n,  D = unscaled (scale 2) | n
//
// The table has the columns k BIGINT (sharding column), o BIGINT, a BIGINT NULL,
// s, t VARCHAR NULL (binary collation), d DECIMAL(10,2) NULL. Rows live in the
// sub-table the real rule places their key in (PLACE, computed at generation time).
//
// Exec builds the real plan (plan.BuildPlan) and runs the real ExecuteIn over an
// in-memory plan.Executor: every rewritten per-table statement is parsed again
// with the repository's parser and evaluated on that table's rows by the small
// evaluator below (the "backend"); its result travels through the text protocol
// encoding and the real RowData.ParseText.
//
// Output: (ok NCOLS SEG…) | err | panic. The rows are printed in segments
// that follow the tie classes of the ORDER BY key (see c02Canon): inside a tie
// class MySQL may return the rows in any order, and a tie class cut by LIMIT may
// contribute any of its rows.

var c02Cols = []string{"k", "o", "a", "s", "t", "d"}
var c02ColType = []byte{'i', 'i', 'i', 's', 's', 'd'}

const c02DecScale = 2

// ---- values -----------------------------------------------------------------

type c02Val struct {
	kind  byte // 'n' NULL, 'i' BIGINT, 's' string, 'd' decimal
	i     int64
	s     string
	scale int
}

var c02Null = c02Val{kind: 'n'}

func c02Int(i int64) c02Val { return c02Val{kind: 'i', i: i} }

func (v c02Val) sexp() core.Sexp {
	switch v.kind {
	case 'i':
		return core.I(v.i)
	case 's':
		return core.L(core.A("s"), core.Text(v.s))
	case 'd':
		return core.L(core.A("d"), core.I(v.i), core.I(int64(v.scale)))
	}
	return core.A("n")
}

func pow10(n int) int64 {
	r := int64(1)
	for i := 0; i < n; i++ {
		r *= 10
	}
	return r
}

// c02Cmp: MySQL's ascending order on one column: NULL first, numbers by value,
// strings by bytes (binary collation).
func c02Cmp(a, b c02Val) int {
	if a.kind == 'n' || b.kind == 'n' {
		if a.kind == b.kind {
			return 0
		}
		if a.kind == 'n' {
			return -1
		}
		return 1
	}
	switch a.kind {
	case 's':
		return bytes.Compare([]byte(a.s), []byte(b.s))
	case 'd', 'i':
		m := a.scale
		if b.scale > m {
			m = b.scale
		}
		x, y := a.i*pow10(m-a.scale), b.i*pow10(m-b.scale)
		if x < y {
			return -1
		}
		if x > y {
			return 1
		}
	}
	return 0
}

func c02EqRow(a, b []c02Val) bool {
	if len(a) != len(b) {
		return false
	}
	for i := range a {
		if a[i].kind != b[i].kind || c02Cmp(a[i], b[i]) != 0 {
			return false
		}
	}
	return true
}

// ---- rendering the query descriptor as SQL -------------------------------------

func c02Name(n int64) string {
	if n >= 0 && int(n) < len(c02Cols) {
		return c02Cols[n]
	}
	return "x" + strconv.FormatInt(n, 10)
}

func c02AggSQL(kind, arg core.Sexp, distinct bool) string {
	a := "*"
	if arg.Atom != "star" {
		a = c02Name(arg.Int())
	}
	d := ""
	if distinct {
		d = "DISTINCT "
	}
	return strings.ToUpper(kind.Atom) + "(" + d + a + ")"
}

func c02BySQL(b core.Sexp) string {
	switch b.Head() {
	case "name":
		return c02Name(b.Nth(1).Int())
	case "agg":
		return c02AggSQL(b.Nth(1), b.Nth(2), b.Nth(3).Bool())
	case "pos":
		return strconv.FormatInt(b.Nth(1).Int(), 10)
	}
	panic("c02: bad by item " + b.String())
}

func c02SelectSQL(table string, q, cond core.Sexp) string {
	var sb strings.Builder
	sb.WriteString("SELECT ")
	if q.Nth(1).Bool() {
		sb.WriteString("DISTINCT ")
	}
	for i, f := range q.Nth(2).List {
		if i > 0 {
			sb.WriteString(", ")
		}
		switch f.Head() {
		case "star":
			sb.WriteString("*")
		case "col":
			sb.WriteString(c02Name(f.Nth(1).Int()))
			if f.Nth(2).Atom != "-" {
				sb.WriteString(" AS " + c02Name(f.Nth(2).Int()))
			}
		case "agg":
			sb.WriteString(c02AggSQL(f.Nth(1), f.Nth(2), f.Nth(3).Bool()))
			if f.Nth(4).Atom != "-" {
				sb.WriteString(" AS " + c02Name(f.Nth(4).Int()))
			}
		default:
			panic("c02: bad field " + f.String())
		}
	}
	sb.WriteString(" FROM " + table)
	if cond.Atom != "none" {
		sb.WriteString(" WHERE " + c01Render(cond, "k", "o"))
	}
	if g := q.Nth(3); g.Atom != "none" {
		sb.WriteString(" GROUP BY ")
		for i, b := range g.List[1:] {
			if i > 0 {
				sb.WriteString(", ")
			}
			sb.WriteString(c02BySQL(b))
		}
	}
	if os := q.Nth(4).List; len(os) > 0 {
		sb.WriteString(" ORDER BY ")
		for i, o := range os {
			if i > 0 {
				sb.WriteString(", ")
			}
			sb.WriteString(c02BySQL(o.Nth(0)))
			if o.Nth(1).Bool() {
				sb.WriteString(" DESC")
			}
		}
	}
	if l := q.Nth(5); l.Atom != "none" {
		c, o := l.Nth(2).Atom, l.Nth(3).Atom
		switch l.Nth(1).Int() {
		case 0:
			sb.WriteString(" LIMIT " + c)
		case 1:
			sb.WriteString(" LIMIT " + o + ", " + c)
		default:
			sb.WriteString(" LIMIT " + c + " OFFSET " + o)
		}
	}
	return sb.String()
}

// limit of the descriptor: (has, offset, count)
func c02Limit(q core.Sexp) (bool, int64, int64) {
	l := q.Nth(5)
	if l.Atom == "none" {
		return false, 0, 0
	}
	if l.Nth(1).Int() == 0 {
		return true, 0, l.Nth(2).Int()
	}
	return true, l.Nth(3).Int(), l.Nth(2).Int()
}

// ---- the backend: a small evaluator of SELECT statements on one table -----------

type c02Row []c02Val // k o a s t d

type c02Item struct {
	kind     byte // 'c' column, 'a' aggregate, 'k' constant
	col      int
	agg      string // count sum max min
	star     bool
	distinct bool
	konst    int64
	alias    string
	name     string
	typ      byte   // type of the column / of the aggregate's argument
	argName  string // the aggregate's argument as written
}

type c02Out struct {
	vis []c02Val
	key []c02Val
}

func c02ColIndex(name string) int {
	for i, c := range c02Cols {
		if c == name {
			return i
		}
	}
	return -1
}

// c02Scope: the columns a statement can name (one table, or the columns of the
// two tables of a join one after the other). quals: the table qualifiers a
// column answers to (nil: any, the single-table statements).
type c02ScopeCol struct {
	quals []string
	name  string
	typ   byte
}

type c02Scope []c02ScopeCol

func c02TableScope(quals []string) c02Scope {
	sc := make(c02Scope, len(c02Cols))
	for i, c := range c02Cols {
		sc[i] = c02ScopeCol{quals: quals, name: c, typ: c02ColType[i]}
	}
	return sc
}

var c02DefaultScope = c02TableScope(nil)

func (c c02ScopeCol) answers(qual string) bool {
	if qual == "" || c.quals == nil {
		return true
	}
	for _, q := range c.quals {
		if q == qual {
			return true
		}
	}
	return false
}

func (sc c02Scope) resolve(x *ast.ColumnNameExpr) (int, error) {
	found := -1
	for i, c := range sc {
		if c.name != x.Name.Name.L || !c.answers(x.Name.Table.L) {
			continue
		}
		if found >= 0 {
			return -1, fmt.Errorf("column %s is ambiguous", x.Name.Name.O)
		}
		found = i
	}
	if found < 0 {
		return -1, fmt.Errorf("unknown column %s", x.Name.String())
	}
	return found, nil
}

func c02ItemOfExpr(e ast.ExprNode, sc c02Scope) (c02Item, error) {
	switch x := e.(type) {
	case *ast.ColumnNameExpr:
		i, err := sc.resolve(x)
		if err != nil {
			return c02Item{}, err
		}
		return c02Item{kind: 'c', col: i, name: x.Name.Name.O, typ: sc[i].typ}, nil
	case *ast.AggregateFuncExpr:
		it := c02Item{kind: 'a', agg: strings.ToLower(x.F), distinct: x.Distinct}
		switch it.agg {
		case "count", "sum", "max", "min":
		default:
			return c02Item{}, fmt.Errorf("aggregate %s", x.F)
		}
		if len(x.Args) != 1 {
			return c02Item{}, fmt.Errorf("aggregate arity")
		}
		switch a := x.Args[0].(type) {
		case *ast.ColumnNameExpr:
			i, err := sc.resolve(a)
			if err != nil {
				return c02Item{}, err
			}
			it.col = i
			it.typ = sc[i].typ
			it.argName = a.Name.String()
		case *driver.ValueExpr: // COUNT(*) is COUNT(1) for this parser
			if it.agg != "count" {
				return c02Item{}, fmt.Errorf("%s of a constant", it.agg)
			}
			it.star = true
		default:
			return c02Item{}, fmt.Errorf("aggregate argument %T", a)
		}
		if it.agg == "sum" && !it.star && it.typ == 's' {
			return c02Item{}, fmt.Errorf("SUM of a string column")
		}
		var sb strings.Builder
		sb.WriteString(strings.ToUpper(it.agg) + "(")
		if it.distinct {
			sb.WriteString("DISTINCT ")
		}
		if it.star {
			sb.WriteString("1)")
		} else {
			sb.WriteString(it.argName + ")")
		}
		it.name = sb.String()
		return it, nil
	case *driver.ValueExpr:
		v, err := util.GetValueExprResult(x)
		if err != nil {
			return c02Item{}, err
		}
		if n, ok := v.(int64); ok {
			return c02Item{kind: 'k', konst: n, name: strconv.FormatInt(n, 10)}, nil
		}
		return c02Item{}, fmt.Errorf("constant %T", v)
	case *ast.PositionExpr:
		return c02Item{kind: 'k', konst: int64(x.N), name: strconv.Itoa(x.N)}, nil
	}
	return c02Item{}, fmt.Errorf("expression %T", e)
}

func c02ItemType(it c02Item) byte {
	switch it.kind {
	case 'c':
		return it.typ
	case 'a':
		switch it.agg {
		case "count":
			return 'i'
		case "sum":
			return 'd'
		}
		return it.typ
	}
	return 'i'
}

func c02Agg(it c02Item, grp []c02Row) c02Val {
	var vals []c02Val
	for _, r := range grp {
		if it.star {
			vals = append(vals, c02Int(1))
			continue
		}
		if v := r[it.col]; v.kind != 'n' {
			vals = append(vals, v)
		}
	}
	if it.distinct && !it.star {
		var ds []c02Val
		for _, v := range vals {
			dup := false
			for _, w := range ds {
				if c02Cmp(v, w) == 0 {
					dup = true
					break
				}
			}
			if !dup {
				ds = append(ds, v)
			}
		}
		vals = ds
	}
	switch it.agg {
	case "count":
		return c02Int(int64(len(vals)))
	case "sum":
		if len(vals) == 0 {
			return c02Null
		}
		scale, sum := 0, int64(0)
		for _, v := range vals {
			if v.scale > scale {
				scale = v.scale
			}
		}
		for _, v := range vals {
			sum += v.i * pow10(scale-v.scale)
		}
		return c02Val{kind: 'd', i: sum, scale: scale}
	case "max", "min":
		if len(vals) == 0 {
			return c02Null
		}
		best := vals[0]
		for _, v := range vals[1:] {
			c := c02Cmp(v, best)
			if (it.agg == "max" && c > 0) || (it.agg == "min" && c < 0) {
				best = v
			}
		}
		return best
	}
	return c02Null
}

func c02EvalItem(it c02Item, grp []c02Row) c02Val {
	switch it.kind {
	case 'c':
		if len(grp) == 0 {
			return c02Null
		}
		return grp[0][it.col]
	case 'a':
		return c02Agg(it, grp)
	}
	return c02Int(it.konst)
}

type c02Result struct {
	items []c02Item
	rows  []c02Out
}

// c02EvalSelect evaluates a single-table SELECT as MySQL would (binary
// collation, ONLY_FULL_GROUP_BY-clean statements). Sorting is stable in the
// order of the stored rows.
func c02EvalSelect(stmt *ast.SelectStmt, rows []c02Row, applyLimit bool) (*c02Result, error) {
	return c02EvalSelectScope(stmt, rows, applyLimit, c02DefaultScope, 0)
}

// c02EvalSelectScope: `rows` are the rows of the FROM clause (of the table, or of
// the join), `sc` their columns; WHERE is a condition on the columns k and o at
// position wk, wk+1 of the rows.
func c02EvalSelectScope(stmt *ast.SelectStmt, rows []c02Row, applyLimit bool, sc c02Scope, wk int) (*c02Result, error) {
	// WHERE
	var sel []c02Row
	for _, r := range rows {
		if stmt.Where != nil {
			if r[wk].kind != 'i' || r[wk+1].kind != 'i' {
				return nil, fmt.Errorf("WHERE on a NULL column of an outer join")
			}
			v, err := c05Eval(stmt.Where, c05Row{k: r[wk].i, o: r[wk+1].i})
			if err != nil {
				return nil, err
			}
			if v == nil || *v == 0 {
				continue
			}
		}
		sel = append(sel, r)
	}
	// select list
	var items []c02Item
	if stmt.Fields == nil {
		return nil, fmt.Errorf("no field list")
	}
	for _, f := range stmt.Fields.Fields {
		if f.WildCard != nil {
			n := 0
			for i, c := range sc {
				if c.answers(f.WildCard.Table.L) {
					items = append(items, c02Item{kind: 'c', col: i, name: c.name, typ: c.typ})
					n++
				}
			}
			if n == 0 {
				return nil, fmt.Errorf("unknown table %s", f.WildCard.Table.O)
			}
			continue
		}
		it, err := c02ItemOfExpr(f.Expr, sc)
		if err != nil {
			return nil, err
		}
		it.alias = f.AsName.L
		if it.alias != "" {
			it.name = f.AsName.O
		}
		items = append(items, it)
	}
	resolve := func(e ast.ExprNode, orderBy bool) (c02Item, error) {
		switch x := e.(type) {
		case *ast.ColumnNameExpr:
			if x.Name.Table.L == "" {
				for _, it := range items {
					if it.alias != "" && it.alias == x.Name.Name.L {
						return it, nil
					}
				}
			}
		case *ast.PositionExpr:
			if orderBy {
				if x.N < 1 || x.N > len(items) {
					return c02Item{}, fmt.Errorf("position %d out of range", x.N)
				}
				return items[x.N-1], nil
			}
		}
		return c02ItemOfExpr(e, sc)
	}
	aggregated := stmt.GroupBy != nil
	for _, it := range items {
		if it.kind == 'a' {
			aggregated = true
		}
	}
	var orderItems []c02Item
	var desc []bool
	if stmt.OrderBy != nil {
		for _, b := range stmt.OrderBy.Items {
			it, err := resolve(b.Expr, true)
			if err != nil {
				return nil, err
			}
			if it.kind == 'a' {
				aggregated = true
			}
			orderItems = append(orderItems, it)
			desc = append(desc, b.Desc)
		}
	}
	// groups
	var groups [][]c02Row
	if !aggregated {
		for _, r := range sel {
			groups = append(groups, []c02Row{r})
		}
	} else if stmt.GroupBy == nil {
		groups = [][]c02Row{sel}
	} else {
		var gitems []c02Item
		for _, b := range stmt.GroupBy.Items {
			it, err := resolve(b.Expr, false)
			if err != nil {
				return nil, err
			}
			if it.kind != 'c' {
				return nil, fmt.Errorf("GROUP BY item is not a column")
			}
			gitems = append(gitems, it)
		}
		var keys [][]c02Val
		for _, r := range sel {
			key := make([]c02Val, len(gitems))
			for i, it := range gitems {
				key[i] = r[it.col]
			}
			found := -1
			for gi, k := range keys {
				if c02EqRow(k, key) {
					found = gi
					break
				}
			}
			if found < 0 {
				keys = append(keys, key)
				groups = append(groups, []c02Row{r})
			} else {
				groups[found] = append(groups[found], r)
			}
		}
	}
	var out []c02Out
	for _, g := range groups {
		o := c02Out{vis: make([]c02Val, len(items)), key: make([]c02Val, len(orderItems))}
		for i, it := range items {
			o.vis[i] = c02EvalItem(it, g)
		}
		for i, it := range orderItems {
			o.key[i] = c02EvalItem(it, g)
		}
		out = append(out, o)
	}
	if stmt.Distinct {
		var ds []c02Out
		for _, o := range out {
			dup := false
			for _, p := range ds {
				if c02EqRow(o.vis, p.vis) {
					dup = true
					break
				}
			}
			if !dup {
				ds = append(ds, o)
			}
		}
		out = ds
	}
	if len(orderItems) > 0 {
		sort.SliceStable(out, func(i, j int) bool { return c02KeyCmp(out[i].key, out[j].key, desc) < 0 })
	}
	if applyLimit && stmt.Limit != nil {
		cnt, err := c02LimitValue(stmt.Limit.Count)
		if err != nil {
			return nil, err
		}
		off := int64(0)
		if stmt.Limit.Offset != nil {
			if off, err = c02LimitValue(stmt.Limit.Offset); err != nil {
				return nil, err
			}
		}
		n := int64(len(out))
		if off > n {
			off = n
		}
		end := off + cnt
		if end > n {
			end = n
		}
		out = out[off:end]
	}
	return &c02Result{items: items, rows: out}, nil
}

func c02LimitValue(e ast.ExprNode) (int64, error) {
	v, ok := e.(*driver.ValueExpr)
	if !ok {
		return 0, fmt.Errorf("limit %T", e)
	}
	x, err := util.GetValueExprResult(v)
	if err != nil {
		return 0, err
	}
	switch n := x.(type) {
	case int64:
		return n, nil
	case uint64:
		return int64(n), nil
	}
	return 0, fmt.Errorf("limit value %T", x)
}

func c02KeyCmp(a, b []c02Val, desc []bool) int {
	for i := range a {
		c := c02Cmp(a[i], b[i])
		if desc[i] {
			c = -c
		}
		if c != 0 {
			return c
		}
	}
	return 0
}

// ---- the in-memory plan.Executor ---------------------------------------------

type c02Executor struct {
	table  string
	tables map[int][]c02Row
	err    error
	calls  int
}

func c02TableOfSelect(s *ast.SelectStmt) string {
	if s.From == nil || s.From.TableRefs == nil {
		return ""
	}
	if ts, ok := s.From.TableRefs.Left.(*ast.TableSource); ok && s.From.TableRefs.Right == nil {
		if tn, ok := ts.Source.(*ast.TableName); ok {
			return tn.Name.O
		}
	}
	return ""
}

func c02Text(v c02Val) []byte {
	switch v.kind {
	case 'i':
		return []byte(strconv.FormatInt(v.i, 10))
	case 's':
		return []byte(v.s)
	case 'd':
		neg := v.i < 0
		u := v.i
		if neg {
			u = -u
		}
		s := strconv.FormatInt(u, 10)
		if v.scale > 0 {
			for len(s) <= v.scale {
				s = "0" + s
			}
			s = s[:len(s)-v.scale] + "." + s[len(s)-v.scale:]
		}
		if neg {
			s = "-" + s
		}
		return []byte(s)
	}
	return nil
}

var c02TableSuffix = regexp.MustCompile(`^(.*)_(\d+)$`)
var c02DBSuffix = regexp.MustCompile(`_(\d+)$`)

func (e *c02Executor) run(db, sql string) (*mysql.Result, int, error) {
	node, err := parser.ParseSQL(sql)
	if err != nil {
		return nil, 0, fmt.Errorf("rewritten statement does not parse: %v", err)
	}
	stmt, ok := node.(*ast.SelectStmt)
	if !ok {
		return nil, 0, fmt.Errorf("unexpected statement %T", node)
	}
	tname := c02TableOfSelect(stmt)
	idx := -1
	if tname == e.table {
		// mycat rules: one table name, the sub-table is the database
		if m := c02DBSuffix.FindStringSubmatch(db); m != nil {
			idx, _ = strconv.Atoi(m[1])
		}
	} else if m := c02TableSuffix.FindStringSubmatch(tname); m != nil && m[1] == e.table {
		idx, _ = strconv.Atoi(m[2])
	}
	if idx < 0 {
		return nil, 0, fmt.Errorf("unexpected physical table %q in %q", tname, db)
	}
	res, err := c02EvalSelect(stmt, e.tables[idx], true)
	if err != nil {
		return nil, 0, err
	}
	// the backend's answer in the text protocol, decoded by the real ParseText
	rs := &mysql.Resultset{FieldNames: map[string]int{}}
	for i, it := range res.items {
		f := &mysql.Field{Name: []byte(it.name)}
		switch c02ItemType(it) {
		case 'i':
			f.Type = mysql.TypeLonglong
		case 's':
			f.Type = mysql.TypeVarString
		case 'd':
			f.Type = mysql.TypeNewDecimal
		}
		rs.Fields = append(rs.Fields, f)
		rs.FieldNames[it.name] = i
	}
	for _, o := range res.rows {
		var rd []byte
		for _, v := range o.vis {
			if v.kind == 'n' {
				rd = append(rd, 0xfb)
			} else {
				rd = mysql.AppendLenEncStringBytes(rd, c02Text(v))
			}
		}
		vals, err := mysql.RowData(rd).ParseText(rs.Fields)
		if err != nil {
			return nil, 0, fmt.Errorf("ParseText: %v", err)
		}
		rs.RowDatas = append(rs.RowDatas, rd)
		rs.Values = append(rs.Values, vals)
	}
	return &mysql.Result{Status: 2, Resultset: rs}, idx, nil
}

func (e *c02Executor) ExecuteSQL(ctx *util.RequestContext, slice, db, sql string) (*mysql.Result, error) {
	r, _, err := e.run(db, sql)
	return r, err
}

func (e *c02Executor) ExecuteSQLs(ctx *util.RequestContext, sqls map[string]map[string][]string) ([]*mysql.Result, error) {
	type one struct {
		idx int
		r   *mysql.Result
	}
	var rs []one
	for _, dbs := range sqls {
		for db, list := range dbs {
			for _, sql := range list {
				e.calls++
				if os.Getenv("VERIF_DEBUG_SQL") != "" {
					fmt.Fprintln(os.Stderr, "shard sql:", sql)
				}
				r, idx, err := e.run(db, sql)
				if err != nil {
					e.err = err
					return nil, err
				}
				rs = append(rs, one{idx, r})
			}
		}
	}
	// results in sub-table order (the real executor collects them per slice)
	sort.SliceStable(rs, func(i, j int) bool { return rs[i].idx < rs[j].idx })
	out := make([]*mysql.Result, len(rs))
	for i, x := range rs {
		out[i] = x.r
	}
	return out, nil
}
func (e *c02Executor) SetLastInsertID(uint64) {}
func (e *c02Executor) GetLastInsertID() uint64 { return 0 }
func (e *c02Executor) HandleSet(*util.RequestContext, string, *ast.SetStmt) (*mysql.Result, error) {
	return nil, nil
}

// ---- result values ----------------------------------------------------------

func c02FromGo(v interface{}) (c02Val, bool) {
	switch x := v.(type) {
	case nil:
		return c02Null, true
	case int64:
		return c02Int(x), true
	case string:
		return c02Val{kind: 's', s: x}, true
	case []byte:
		return c02Val{kind: 's', s: string(x)}, true
	case decimal.Decimal:
		exp := int(x.Exponent())
		co := x.Coefficient()
		if !co.IsInt64() {
			return c02Val{}, false
		}
		c := co.Int64()
		if exp > 0 {
			return c02Val{kind: 'd', i: c * pow10(exp), scale: 0}, true
		}
		return c02Val{kind: 'd', i: c, scale: -exp}, true
	}
	return c02Val{}, false
}

func c02ParseRows(e core.Sexp) (map[int][]c02Row, []c02Row) {
	tables := map[int][]c02Row{}
	var all []c02Row
	for _, r := range e.List[1:] {
		row := c02Row{c02Int(r.Nth(1).Int()), c02Int(r.Nth(2).Int()), c02Null, c02Null, c02Null, c02Null}
		if a := r.Nth(3); a.Atom != "n" {
			row[2] = c02Int(a.Int())
		}
		if s := r.Nth(4); s.Atom != "n" {
			row[3] = c02Val{kind: 's', s: s.Str()}
		}
		if t := r.Nth(5); t.Atom != "n" {
			row[4] = c02Val{kind: 's', s: t.Str()}
		}
		if d := r.Nth(6); d.Atom != "n" {
			row[5] = c02Val{kind: 'd', i: d.Int(), scale: c02DecScale}
		}
		idx := int(r.Nth(0).Int())
		tables[idx] = append(tables[idx], row)
	}
	// one database holding all shards: the sub-tables one after the other
	var idxs []int
	for i := range tables {
		idxs = append(idxs, i)
	}
	sort.Ints(idxs)
	for _, i := range idxs {
		all = append(all, tables[i]...)
	}
	return tables, all
}

func c02RowText(r []c02Val) string {
	vs := make([]core.Sexp, len(r))
	for i, v := range r {
		vs[i] = v.sexp()
	}
	return core.L(vs...).String()
}

// c02Canon prints the answer `out` in segments that follow the tie classes of
// the reference answer `ref` (the statement without LIMIT evaluated on one
// database holding every row, sorted): rows of a tie class that lies inside the
// LIMIT window are sorted (by their text); a tie class cut by the window whose
// rows differ may contribute any of its rows, so only their number is printed —
// unless they are not rows of that class, then they are printed as they are.
func c02Canon(out [][]c02Val, ref []c02Out, hasLimit bool, off, cnt int64) []string {
	n := int64(len(ref))
	lo, hi := int64(0), n
	if hasLimit {
		lo, hi = off, off+cnt
		if lo > n {
			lo = n
		}
		if hi > n {
			hi = n
		}
	}
	var segs []string
	pos := int64(0) // position in out
	take := func(k int64) []string {
		if pos+k > int64(len(out)) {
			k = int64(len(out)) - pos
		}
		if k < 0 {
			k = 0
		}
		var s []string
		for _, r := range out[pos : pos+k] {
			s = append(s, c02RowText(r))
		}
		pos += k
		return s
	}
	join := func(head string, rows []string) string {
		if len(rows) == 0 {
			return "(" + head + ")"
		}
		return "(" + head + " " + strings.Join(rows, " ") + ")"
	}
	for s := int64(0); s < n; {
		e := s + 1
		for e < n && c02RowText(ref[s].key) == c02RowText(ref[e].key) {
			e++
		}
		a, b := s, e
		if a < lo {
			a = lo
		}
		if b > hi {
			b = hi
		}
		if a < b {
			seg := take(b - a)
			sort.Strings(seg)
			same := true
			var cls []string
			for i := s; i < e; i++ {
				t := c02RowText(ref[i].vis)
				cls = append(cls, t)
				if t != cls[0] {
					same = false
				}
			}
			if (s >= lo && e <= hi) || same {
				segs = append(segs, join("run", seg))
			} else {
				// sub-multiset of the class?
				used := make([]bool, len(cls))
				okAll := true
				for _, r := range seg {
					found := false
					for i, t := range cls {
						if !used[i] && t == r {
							used[i] = true
							found = true
							break
						}
					}
					if !found {
						okAll = false
					}
				}
				if okAll {
					segs = append(segs, fmt.Sprintf("(cut %d)", len(seg)))
				} else {
					segs = append(segs, join("badcut", seg))
				}
			}
		}
		s = e
	}
	if pos < int64(len(out)) {
		var rest []string
		for _, r := range out[pos:] {
			rest = append(rest, c02RowText(r))
		}
		segs = append(segs, join("extra", rest))
	}
	return segs
}

var c02PhyDBs = map[string]string{"db_ks": "db_ks", "db_mycat": "db_mycat_0"}

func c02PhysTable(r *c01Rule) string { return r.table }

func c02Sel(in core.Sexp) string {
	rt, err := c01GetRouter()
	if err != nil {
		return "setup-error"
	}
	r := c01RuleByName(in.Nth(1).Atom)
	if r == nil {
		return "bad-rule"
	}
	q, cond := in.Nth(3), in.Nth(4)
	sql := c02SelectSQL(r.table, q, cond)
	if os.Getenv("VERIF_DEBUG_SQL") != "" {
		fmt.Fprintln(os.Stderr, "sql:", sql)
	}
	node, err := parser.ParseSQL(sql)
	if err != nil {
		return "(parse-error " + core.Text(sql).String() + ")"
	}
	tables, all := c02ParseRows(in.Nth(5))
	// the reference: the same statement, without LIMIT, on one database holding every row
	refNode, _ := parser.ParseSQL(sql)
	ref, err := c02EvalSelect(refNode.(*ast.SelectStmt), all, false)
	if err != nil {
		if os.Getenv("VERIF_DEBUG_SQL") != "" {
			fmt.Fprintln(os.Stderr, "unsupported:", err)
		}
		return "unsupported"
	}
	p, err := plan.BuildPlan(node, c02PhyDBs, r.db, sql, rt, sequence.NewSequenceManager(), nil)
	if err != nil {
		if os.Getenv("VERIF_DEBUG_SQL") != "" {
			fmt.Fprintln(os.Stderr, "plan error:", err)
		}
		return "err"
	}
	ex := &c02Executor{table: c02PhysTable(r), tables: tables}
	res, err := p.ExecuteIn(util.NewRequestContext(), ex)
	if err != nil {
		if os.Getenv("VERIF_DEBUG_SQL") != "" {
			fmt.Fprintln(os.Stderr, "exec error:", err)
		}
		if ex.err != nil {
			return "(executor-error " + core.Text(ex.err.Error()).String() + ")"
		}
		return "err"
	}
	if res == nil || res.Resultset == nil {
		return "(no-resultset)"
	}
	var out [][]c02Val
	for _, vs := range res.Values {
		row := make([]c02Val, len(vs))
		for i, v := range vs {
			x, ok := c02FromGo(v)
			if !ok {
				return fmt.Sprintf("(bad-value %T)", v)
			}
			row[i] = x
		}
		out = append(out, row)
	}
	if len(res.RowDatas) != len(res.Values) {
		return fmt.Sprintf("(rowdata-mismatch %d %d)", len(res.RowDatas), len(res.Values))
	}
	hasLimit, off, cnt := c02Limit(q)
	segs := c02Canon(out, ref.rows, hasLimit, off, cnt)
	return "(ok " + strings.Join(append([]string{strconv.Itoa(len(res.Fields))}, segs...), " ") + ")"
}

func execC02(in core.Sexp) string {
	switch in.Head() {
	case "sel":
		return c02Sel(in)
	case "union":
		return c02Union(in)
	case "join":
		return c02Join(in)
	}
	return "bad"
}

// inputs of this run (collected by Trivial), classified at the end
var c02Seen []string

// c02Extra asks the Lean driver which of the evaluated statements lie in the
// class of C02_select_correct_partial and records the shares in the evidence.
func c02Extra(r *core.Run) {
	if len(c02Seen) == 0 {
		return
	}
	lines := make([]string, len(c02Seen))
	for i, l := range c02Seen {
		lines[i] = "C02 k " + l
	}
	ans, err := core.DriverBatch(r.Driver, lines)
	if err != nil {
		r.Note("class report failed: %v", err)
		return
	}
	count := map[string]int{}
	for i, a := range ans {
		count[a]++
		if d := os.Getenv("VERIF_DEBUG_CLASS"); d != "" && strings.HasPrefix(a, d) && count[a] <= 8 {
			fmt.Fprintln(os.Stderr, a, c02Seen[i])
		}
	}
	var keys []string
	for k := range count {
		keys = append(keys, k)
	}
	sort.Strings(keys)
	var parts []string
	for _, k := range keys {
		parts = append(parts, fmt.Sprintf("%s: %d", k, count[k]))
	}
	r.Note("statements by theorem class (C02_select_correct_partial) — %s", strings.Join(parts, "; "))
	c02Seen = nil
}

func init() {
	core.Register(&core.Property{
		ID: "C02",
		Rule: "SELECT statements from a grammar of the supported subset — projections (columns, aliases, *), SELECT DISTINCT, COUNT/SUM/MAX/MIN with and without DISTINCT, GROUP BY 1–2 columns (also by alias, also not selected), " +
			"ORDER BY selected / hidden columns, aliases, aggregate functions (selected or not) and positions, ASC/DESC, LIMIT in its three spellings with and without OFFSET (counts 0…100), WHERE from C01's condition trees (so that statements are routed to zero, one or several sub-tables) — " +
			"on a table (k, o, a, s, t, d) of 0–25 rows placed by the real rule (hash, mod, range, linked, date_year, mycat_mod, mycat_long) with NULLs, duplicates, the strings NULL + a+ +b and the empty string, negative numbers and DECIMAL(10,2) values, groups present on one sub-table only; " +
			"plus a stream of statements a server rejects, a stream of UNION [ALL] statements of 2–3 such SELECTs (plain, aggregated, grouped; aligned column types, now and then a mismatch) with ORDER BY name / position and LIMIT, " +
			"and a stream of such statements over a [LEFT] JOIN b ON a.k = b.k [AND a.o = b.o] of a range / hash table with its linked child table (either order) or with a global table (either order for inner joins), columns of both tables written alias.column or table.column, 0–12 rows per table with shared keys; " +
			"the real plan is built and run over an in-memory executor that evaluates every rewritten per-table statement; non-trivial = rows returned",
		Generate: genC02,
		Exec:     execC02,
		Trivial: func(in core.Sexp, out string) bool {
			c02Seen = append(c02Seen, in.String())
			return !strings.HasPrefix(out, "(ok")
		},
		Extra: c02Extra,
		// what the real rule reported at generation time stays as it is while a failing input is shrunk
		ShrinkKeep: []string{"meta", "lit"},
		Assumptions: []string{
			"each backend answers a rewritten per-table statement as MySQL does under a binary collation with ONLY_FULL_GROUP_BY-clean statements (the harness evaluator and the Lean reference semantics are cross-checked against each other on every case); ties of ORDER BY and rows cut by LIMIT inside a tie class are unspecified and compared as such",
			"RowData.ParseText turns BIGINT into int64, DECIMAL into decimal.Decimal and character columns into string; uint64/float64/[]byte columns are not modelled",
			"TZ=UTC; rows are stored where FindTableIndex places their key (C03/C09); the routing of WHERE is C01's model",
		},
	})
}
