package props

import (
	"fmt"
	"io"
	"math/rand"
	"net"
	"sort"
	"strings"
	"time"

	"gaeaverif/harness/core"

	"github.com/XiaoMi/Gaea/mysql"
)

// C11 — packet framing of mysql/conn.go: WritePacket, readHeaderFrom,
// readOnePacket, ReadPacket, ReadEphemeralPacket over an in-memory transport
// that cuts the byte stream at seeded random points.

const c11M = mysql.MaxPacketSize

func init() {
	core.Register(&core.Property{
		ID: "C11",
		Rule: "w: real WritePacket (plain, buffered writer, ephemeral buffer) of payloads of length 0,1,…, bufio-size ±, 2^16 ±, M-2…M+1, 2M-1…2M+1, 3M(+1) and random, start ids 0,1,254,255 and random (all 256 in the thorough tier), " +
			"the bytes written are cut into frames and read back by the real ReadPacket and ReadEphemeralPacket through a transport that fragments reads (1–3 bytes around every frame boundary); " +
			"r: scripted byte streams (valid single and multi-frame packets, back-to-back packets, empty frames, wrong ids on first/continuation/empty frames, streams cut inside headers and bodies, random bytes) read by sequences of readHeaderFrom/readOnePacket/ReadPacket/ReadEphemeralPacket; " +
			"non-trivial = at least one packet was delivered",
		Generate: genC11,
		Exec:     execC11,
		Trivial: func(in core.Sexp, out string) bool {
			return !strings.Contains(out, "(ok ")
		},
		Assumptions: []string{
			"the transport is a reliable byte stream: io.ReadFull/bufio deliver the peer's bytes in order whatever the fragmentation (sampled by the fragmenting in-memory transport on every run)",
			"writes to the transport succeed (the error returns of WritePacket are not modelled)",
			"callers separate ReadEphemeralPacket calls by RecycleReadPacket (the harness does)",
		},
	})
}

// ---- payload / stream descriptions shared with Drv/C11.lean ----

func c11PatByte(seed, i int) byte { return byte((i%251 + 7*(i/65521) + seed) & 0xff) }

func c11Seg(s core.Sexp) []byte {
	switch s.Head() {
	case "hex":
		return s.Nth(1).Bytes()
	case "pat":
		n, seed := int(s.Nth(1).Int()), int(s.Nth(2).Int())
		b := make([]byte, n)
		for i := range b {
			b[i] = c11PatByte(seed, i)
		}
		return b
	case "h":
		l, q := int(s.Nth(1).Int()), int(s.Nth(2).Int())
		return []byte{byte(l), byte(l >> 8), byte(l >> 16), byte(q)}
	}
	panic("c11: bad segment " + s.String())
}

func c11Fnv(b []byte) uint64 {
	h := uint64(14695981039346656037)
	for _, c := range b {
		h = (h ^ uint64(c)) * 1099511628211
	}
	return h
}

// ---- the transport ----

// c11Conn is an in-memory net.Conn: reads deliver `in` in fragments chosen by
// a seeded PRNG (tiny ones around the offsets in hot), then EOF; writes are
// recorded.
type c11Conn struct {
	in      []byte
	pos     int
	out     []byte
	rng     *rand.Rand
	mode    int
	hot     []int
	nwrites int
}

func (c *c11Conn) Read(p []byte) (int, error) {
	if c.pos >= len(c.in) {
		return 0, io.EOF
	}
	if len(p) == 0 {
		return 0, nil
	}
	n := len(c.in) - c.pos
	if len(p) < n {
		n = len(p)
	}
	k := n
	if c.mode != 0 {
		maxFrag := []int{0, 7, 600, 70000, 1 << 22}[c.mode]
		k = 1 + c.rng.Intn(maxFrag)
		// nearest hot offset at or after pos-8
		i := sort.SearchInts(c.hot, c.pos-8)
		if i < len(c.hot) {
			h := c.hot[i]
			if h-c.pos <= 8 {
				k = 1 + c.rng.Intn(3)
			} else if k > h-8-c.pos {
				k = h - 8 - c.pos
			}
		}
		if k > n {
			k = n
		}
		if k < 1 {
			k = 1
		}
	}
	copy(p, c.in[c.pos:c.pos+k])
	c.pos += k
	return k, nil
}

func (c *c11Conn) Write(p []byte) (int, error) {
	c.nwrites++
	c.out = append(c.out, p...)
	return len(p), nil
}
func (c *c11Conn) Close() error                       { return nil }
func (c *c11Conn) LocalAddr() net.Addr                { return c11Addr{} }
func (c *c11Conn) RemoteAddr() net.Addr               { return c11Addr{} }
func (c *c11Conn) SetDeadline(t time.Time) error      { return nil }
func (c *c11Conn) SetReadDeadline(t time.Time) error  { return nil }
func (c *c11Conn) SetWriteDeadline(t time.Time) error { return nil }

type c11Addr struct{}

func (c11Addr) Network() string { return "mem" }
func (c11Addr) String() string  { return "mem" }

func c11Frag(s core.Sexp) (mode int, seed int64) {
	if s.Head() == "frag" {
		return int(s.Nth(1).Int()), s.Nth(2).Int()
	}
	return 0, 0
}

func c11ErrKind(err error) string {
	switch {
	case err == mysql.ErrBadConn:
		return "bad-conn"
	case err == mysql.ErrResetConn:
		return "reset"
	case strings.HasPrefix(err.Error(), "invalid sequence"):
		return "seq"
	case strings.HasPrefix(err.Error(), "io.ReadFull(packet body"):
		return "body"
	}
	return "other"
}

// c11Walk cuts written bytes into frames the way a peer does.
func c11Walk(w []byte) (frames []string, hot []int, junk int) {
	pos := 0
	for len(w)-pos >= 4 {
		l := int(w[pos]) | int(w[pos+1])<<8 | int(w[pos+2])<<16
		if len(w)-pos-4 < l {
			break
		}
		hot = append(hot, pos, pos+4)
		frames = append(frames, fmt.Sprintf("(%d %d %d)", l, w[pos+3], c11Fnv(w[pos+4:pos+4+l])))
		pos += 4 + l
	}
	hot = append(hot, pos)
	return frames, hot, len(w) - pos
}

func c11ReadResult(c *mysql.Conn, tc *c11Conn, data []byte, err error) string {
	if err != nil {
		return "(err " + c11ErrKind(err) + ")"
	}
	return fmt.Sprintf("(ok %d %d %d %d)", len(data), c11Fnv(data), c.GetSequence(), len(tc.in)-tc.pos+c.VerifBuffered())
}

func execC11(in core.Sexp) string {
	switch in.Head() {
	case "w":
		seq := uint8(in.Nth(1).Int())
		payload := c11Seg(in.Nth(2))
		how := in.Nth(3).Atom
		mode, fseed := c11Frag(in.Nth(4))
		before := c11Fnv(payload)
		tc := &c11Conn{}
		c := mysql.NewConn(tc)
		c.SetSequence(seq)
		var err error
		switch how {
		case "buf":
			c.StartWriterBuffering()
			err = c.WritePacket(payload)
			if e2 := c.Flush(); err == nil {
				err = e2
			}
		case "eph":
			b := c.StartEphemeralPacket(len(payload))
			if len(b) != len(payload) {
				return "(ephemeral-buffer-length)"
			}
			copy(b, payload)
			err = c.WriteEphemeralPacket()
		default:
			err = c.WritePacket(payload)
		}
		if err != nil {
			return "(err write)"
		}
		if c11Fnv(payload) != before {
			return "(payload-mutated)"
		}
		seqAfter := c.GetSequence()
		wire := tc.out
		frames, hot, junk := c11Walk(wire)
		back := func(eph bool) string {
			rc := &c11Conn{in: wire, rng: rand.New(rand.NewSource(fseed)), mode: mode, hot: hot}
			c2 := mysql.NewConn(rc)
			c2.SetSequence(seq)
			if eph {
				d, e := c2.ReadEphemeralPacket()
				r := c11ReadResult(c2, rc, d, e)
				c2.RecycleReadPacket()
				return r
			}
			d, e := c2.ReadPacket()
			return c11ReadResult(c2, rc, d, e)
		}
		return fmt.Sprintf("(ok %d (frames %s) (junk %d) (p %s) (e %s))", seqAfter, strings.Join(frames, " "), junk, back(false), back(true))
	case "r":
		seq := uint8(in.Nth(1).Int())
		var stream []byte
		var hot []int
		for _, s := range in.Nth(3).List {
			hot = append(hot, len(stream))
			stream = append(stream, c11Seg(s)...)
		}
		hot = append(hot, len(stream))
		mode, fseed := c11Frag(in.Nth(4))
		rc := &c11Conn{in: stream, rng: rand.New(rand.NewSource(fseed)), mode: mode, hot: hot}
		c := mysql.NewConn(rc)
		c.SetSequence(seq)
		var outs []string
		for _, op := range in.Nth(2).List {
			var r string
			var err error
			switch op.Atom {
			case "h":
				var l int
				l, err = c.VerifReadHeader()
				if err == nil {
					r = fmt.Sprintf("(hdr %d %d %d)", l, c.GetSequence(), len(rc.in)-rc.pos+c.VerifBuffered())
				} else {
					r = "(err " + c11ErrKind(err) + ")"
				}
			case "o":
				var d []byte
				d, err = c.VerifReadOnePacket()
				r = c11ReadResult(c, rc, d, err)
			case "p":
				var d []byte
				d, err = c.ReadPacket()
				r = c11ReadResult(c, rc, d, err)
			default:
				var d []byte
				d, err = c.ReadEphemeralPacket()
				r = c11ReadResult(c, rc, d, err)
				c.RecycleReadPacket()
			}
			outs = append(outs, r)
			if err != nil {
				break
			}
		}
		return "(" + strings.Join(outs, " ") + ")"
	}
	return "bad"
}

// ---- generators ----

func c11Payload(g *core.Gen, n int) core.Sexp {
	if n <= 300 && g.Intn(3) != 0 {
		b := make([]byte, n)
		g.Rand.Read(b)
		if n > 0 && g.Intn(4) == 0 { // bytes that look like headers / EOF markers
			for i := range b {
				b[i] = core.Pick(g, []byte{0, 0, 1, 0xfe, 0xff})
			}
		}
		return core.L(core.A("hex"), core.Hex(b))
	}
	return core.L(core.A("pat"), core.I(int64(n)), core.I(int64(g.Intn(256))))
}

func c11FragSexp(g *core.Gen, big bool) core.Sexp {
	mode := g.Intn(5)
	if big && (mode == 1 || mode == 2) {
		mode = 3 // keep the number of Read calls on multi-megabyte streams reasonable
	}
	return core.L(core.A("frag"), core.I(int64(mode)), core.I(int64(g.Intn(1<<30))))
}

func genC11(g *core.Gen) {
	M := c11M
	hows := []string{"raw", "buf", "eph"}
	emitW := func(seq, n int, tag string) {
		g.Emit(core.L(core.A("w"), core.I(int64(seq)), c11Payload(g, n), core.A(core.Pick(g, hows)), c11FragSexp(g, n > 1<<20)), "w", tag)
	}
	seqs := []int{0, 1, 2, 127, 128, 253, 254, 255}
	// small and medium payloads
	lens := []int{0, 1, 2, 3, 4, 5, 7, 8, 127, 128, 129, 255, 256, 257, 4095, 4096, 16379, 16380, 16381, 16383, 16384, 16385, 16388, 65535, 65536, 65537, 1 << 20}
	for _, n := range lens {
		emitW(core.Pick(g, seqs), n, "w-boundary-small")
		emitW(g.Intn(256), n, "w-boundary-small")
	}
	for i := 0; i < g.Scale(150, 1500); i++ {
		n := g.Intn(40)
		switch g.Intn(4) {
		case 0:
			n = g.Intn(600)
		case 1:
			n = g.Intn(70000)
		}
		emitW(g.Intn(256), n, "w-random")
	}
	if g.Tier != "quick" {
		for s := 0; s < 256; s++ {
			emitW(s, g.Intn(20), "w-every-seq")
		}
	}
	// payloads around the frame limit
	type bw struct{ n, seq int }
	// 2M is in the quick tier too: a writer that forgets the empty terminator only after the
	// *second* full frame (seeded change C11-1) is invisible at M
	bigs := []bw{{M - 1, 0}, {M, 255}, {M + 1, 7}, {2 * M, 254}}
	if g.Tier != "quick" {
		// each run takes about half of the remaining ones (the thorough tier runs three seeds)
		for _, b := range []bw{{M - 2, 3}, {M, 0}, {2*M + 1, 1}, {2*M - 1, 255}, {2 * M, 0}, {3 * M, 253}, {3*M + 1, 254},
			{M + g.Intn(M), g.Intn(256)}, {2*M + g.Intn(M), g.Intn(256)}} {
			if g.Intn(2) == 0 {
				bigs = append(bigs, b)
			}
		}
	}
	for _, b := range bigs {
		emitW(b.seq, b.n, "w-frame-limit")
	}

	// scripted streams
	pat := func(n int) core.Sexp {
		return core.L(core.A("pat"), core.I(int64(n)), core.I(int64(g.Intn(256))))
	}
	hdr := func(l, q int) core.Sexp { return core.L(core.A("h"), core.I(int64(l)), core.I(int64(q&0xff))) }
	emitR := func(seq int, ops []string, segs []core.Sexp, big bool, tags ...string) {
		os := make([]core.Sexp, len(ops))
		for i, o := range ops {
			os[i] = core.A(o)
		}
		g.Emit(core.L(core.A("r"), core.I(int64(seq&0xff)), core.L(os...), core.L(segs...), c11FragSexp(g, big)), append([]string{"r"}, tags...)...)
	}
	pktOps := []string{"p", "e"}
	anyOps := []string{"p", "e", "p", "e", "o", "h"}
	smallLen := func() int {
		switch g.Intn(5) {
		case 0:
			return 0
		case 1:
			return 1 + g.Intn(4)
		case 2:
			return 16370 + g.Intn(30)
		}
		return g.Intn(300)
	}
	for i := 0; i < g.Scale(700, 8000); i++ {
		seq := core.Pick(g, seqs)
		if g.Intn(3) == 0 {
			seq = g.Intn(256)
		}
		var segs []core.Sexp
		var ops []string
		npk := 1 + g.Intn(4)
		s := seq
		tag := "r-valid"
		fault := g.Intn(9) // one fault in about half the streams
		faultAt := g.Intn(npk)
		for k := 0; k < npk; k++ {
			n := smallLen()
			q := s
			if k == faultAt {
				switch fault {
				case 0:
					q = s + 1 + g.Intn(255)
					tag = "r-bad-seq"
					if n == 0 {
						tag = "r-bad-seq-empty-frame"
					}
				case 1:
					n = 0
					q = s + 1 + g.Intn(255)
					tag = "r-bad-seq-empty-frame"
				}
			}
			segs = append(segs, hdr(n, q))
			if n > 0 {
				body := c11Payload(g, n)
				if k == faultAt && fault == 2 { // body cut short
					cut := g.Intn(n)
					body = pat(cut)
					tag = "r-truncated-body"
					segs = append(segs, body)
					ops = append(ops, core.Pick(g, anyOps))
					break
				}
				segs = append(segs, body)
			}
			ops = append(ops, core.Pick(g, anyOps))
			if ops[len(ops)-1] == "h" && n > 0 {
				// after a bare header read the body is still in the stream: the next read misparses it (malformed stream)
				tag = "r-desync"
			}
			s++
		}
		if fault == 3 { // header cut short at the end
			b := []byte{byte(g.Intn(256)), byte(g.Intn(3)), 0}
			segs = append(segs, core.L(core.A("hex"), core.Hex(b[:1+g.Intn(3)])))
			ops = append(ops, core.Pick(g, anyOps))
			if tag == "r-valid" {
				tag = "r-truncated-header"
			}
		}
		if fault == 4 { // one more read than packets: EOF
			ops = append(ops, core.Pick(g, anyOps))
			if tag == "r-valid" {
				tag = "r-eof"
			}
		}
		emitR(seq, ops, segs, false, tag)
	}
	// random bytes
	for i := 0; i < g.Scale(150, 2000); i++ {
		b := make([]byte, g.Intn(24))
		for j := range b {
			b[j] = core.Pick(g, []byte{0, 0, 0, 1, 2, 3, 5, 0xff})
		}
		ops := []string{core.Pick(g, anyOps), core.Pick(g, anyOps), core.Pick(g, anyOps)}
		emitR(core.Pick(g, []int{0, 1, 2, 3}), ops, []core.Sexp{core.L(core.A("hex"), core.Hex(b))}, false, "r-random-bytes")
	}
	// multi-frame packets
	type fr struct{ l, dq int } // length, deviation of the id from the expected one
	type bigR struct {
		frames []fr
		cut    int // bytes dropped from the end of the stream
		tag    string
	}
	// (valid multi-frame packets are also read in every w case around the limit)
	bigRs := []bigR{
		{[]fr{{M, 0}, {5, 1}}, 0, "r-multi-bad-seq"},
		{[]fr{{M, 0}, {0, 3}}, 0, "r-multi-bad-seq-empty-frame"},
		{[]fr{{M, 0}}, 0, "r-multi-truncated"},
	}
	if g.Tier != "quick" {
		bigRs = append(bigRs,
			bigR{[]fr{{M, 0}, {5, 0}}, 0, "r-multi-valid"},
			bigR{[]fr{{M, 0}, {0, 0}}, 0, "r-multi-valid"},
			bigR{[]fr{{M, 0}, {9, 0}}, 11, "r-multi-truncated"})
		bigRs = append(bigRs,
			bigR{[]fr{{M, 0}, {M, 0}, {0, 0}}, 0, "r-multi-valid"},
			bigR{[]fr{{M, 0}, {M, 0}, {1 + g.Intn(1000), 0}}, 0, "r-multi-valid"},
			bigR{[]fr{{M, 0}, {M, 255}, {3, 0}}, 0, "r-multi-bad-seq"},
			bigR{[]fr{{M, 0}, {M, 0}, {0, 255}}, 0, "r-multi-bad-seq-empty-frame"},
			bigR{[]fr{{M, 0}, {M - 1, 0}, {7, 0}}, 0, "r-multi-valid"}, // second packet follows
			bigR{[]fr{{M - 1, 0}, {M, 0}, {0, 0}}, 0, "r-multi-valid"},
			bigR{[]fr{{M, 0}, {M, 0}}, 1 + g.Intn(M), "r-multi-truncated"},
			bigR{[]fr{{M, 1}, {4, 0}}, 0, "r-multi-bad-seq"},
		)
	}
	for i, b := range bigRs {
		ops := pktOps[i%2 : i%2+1] // one reader per scenario, alternating
		if g.Tier != "quick" {
			if i < 3 {
				ops = pktOps[(i+g.Intn(2))%2:][:1]
			} else if g.Intn(2) == 0 { // about half of the extra scenarios per run
				continue
			}
		}
		for _, op := range ops {
			seq := core.Pick(g, []int{0, 1, 254, 255, g.Intn(256)})
			var segs []core.Sexp
			for k, f := range b.frames {
				segs = append(segs, hdr(f.l, seq+k+f.dq))
				n := f.l
				if k == len(b.frames)-1 && b.cut > 0 {
					n -= b.cut
					if n < 0 {
						// cut reaches into the header: replace it by a partial one
						segs = segs[:len(segs)-1]
						segs = append(segs, core.L(core.A("hex"), core.Hex([]byte{byte(f.l), 0, 0, 0}[:4+n])))
						n = 0
					}
				}
				if n > 0 {
					segs = append(segs, pat(n))
				}
			}
			emitR(seq, []string{op, op}, segs, true, b.tag)
		}
	}
}
