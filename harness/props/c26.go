package props

import (
	"strings"
	"time"

	"gaeaverif/harness/core"

	"github.com/XiaoMi/Gaea/backend"
)

// C26 — the circuit breaker of a replica: backend/slide.go SlidingWindow,
// Slice.TryFuse / getConnWithFuse (backend/slice.go), mysql.AsConnError.

func init() {
	core.Register(&core.Property{
		ID: "C26",
		Rule: "slide: real Trigger on histories with repeats and gaps of 0,1,W-1,W,W+1,k·W from bases 0,W-1,W,10^3,1.7·10^9, windows/thresholds -1…10 " +
			"(+ a malformed stream: negative and decreasing timestamps; thorough: every non-decreasing history of ≤5 events over 8 seconds for W≤4, M≤3); " +
			"node: a replica with/without FuseStrategy and RecoveryStrategy, window preloaded through Trigger(now-age), then TryFuse with every error kind, " +
			"reads through GetSlaveConn with a scripted pool, SetStatusUp, at the real clock second; non-trivial = at least one Trigger returned true / one status is down",
		Generate: genC26,
		Exec:     execC26,
		Trivial: func(in core.Sexp, out string) bool {
			return !(strings.Contains(out, " t") || strings.Contains(out, "(t") || strings.Contains(out, "d"))
		},
		Assumptions: []string{
			"timestamps and window sizes are far from 2^63 (int64 modelled by Int)",
			"TryFuse reads the wall clock itself: the node histories run within one real second T (re-run if the second changed) and the model runs them at a fixed second; by theorem trigger_iff the results depend on time differences only",
			"the clock does not go back between two TryFuse calls on one node and the calls on one node are not reordered between reading the clock and taking the window's lock",
		},
	})
}

func boolsTF(bs []bool, t, f string) string {
	parts := make([]string, len(bs))
	for i, b := range bs {
		if b {
			parts[i] = t
		} else {
			parts[i] = f
		}
	}
	return strings.Join(parts, " ")
}

func execC26(in core.Sexp) string {
	balQuiet()
	switch in.Head() {
	case "slide":
		w, m := in.Nth(1).Int(), in.Nth(2).Int()
		sw := backend.NewSlidingWindow(w, m)
		var rs []bool
		for _, t := range in.Nth(3).List {
			rs = append(rs, sw.Trigger(t.Int()))
		}
		if len(rs) == 0 {
			return "(ok)"
		}
		return "(ok " + boolsTF(rs, "t", "f") + ")"
	case "node":
		for attempt := 0; ; attempt++ {
			out, sameSecond := execC26Node(in)
			if sameSecond || attempt >= 8 {
				return out
			}
		}
	}
	return "bad"
}

func execC26Node(in core.Sexp) (string, bool) {
	T := time.Now().Unix()
	pool := &balFakePool{node: 0}
	node := &backend.NodeInfo{Address: "n0:3306", Weight: 1, ConnPool: pool, Status: backend.StatusDown}
	if in.Nth(3).Bool() {
		node.Status = backend.StatusUp
	}
	var sw *backend.SlidingWindow
	if f := in.Nth(1); !f.IsAtom {
		sw = backend.NewSlidingWindow(f.Nth(0).Int(), f.Nth(1).Int())
		node.FuseStrategy = sw
	}
	switch in.Nth(2).Atom {
	case "hard":
		node.RecoveryStrategy = backend.NewHardCoolDown(30)
	case "gradual":
		node.RecoveryStrategy = backend.NewGradualRecovery()
	}
	slaves := &backend.DBInfo{Nodes: []*backend.NodeInfo{node}}
	if err := slaves.InitBalancers(""); err != nil {
		return "(err init-balancers)", true
	}
	s := &backend.Slice{Namespace: "verif", Slave: slaves}
	var pre []bool
	if sw != nil {
		for _, a := range in.Nth(4).List {
			pre = append(pre, sw.Trigger(T-a.Int()))
		}
	}
	var st []bool
	for _, op := range in.Nth(5).List {
		switch op.Head() {
		case "e":
			s.TryFuse(node, balErr(op.Nth(1).Atom))
		case "g":
			// "poolclosed": the Get of a real connection pool that was never opened (the error the real
			// code reports for a closed pool is not a connection error: seeded change C26-5)
			if a := op.Nth(1).Atom; a == "poolclosed" {
				node.ConnPool = backend.NewConnectionPool("n0:3306", "u", "p", "db", 1, 1, time.Second, "utf8mb4", 46, 0, "", "", time.Second)
			} else {
				node.ConnPool = pool
				pool.answer = a
			}
			pc, err := s.GetSlaveConn(slaves, backend.LocalSlaveReadClosed)
			if (err == nil) != (pc != nil) {
				return "(conn-and-error-disagree)", true
			}
		case "up":
			node.SetStatusUp()
		default:
			return "bad", true
		}
		st = append(st, node.IsStatusUp())
	}
	return "(ok (" + boolsTF(pre, "t", "f") + ") (" + boolsTF(st, "u", "d") + "))", time.Now().Unix() == T
}

func genC26(g *core.Gen) {
	ints := func(ns []int64) core.Sexp {
		xs := make([]core.Sexp, len(ns))
		for i, n := range ns {
			xs[i] = core.I(n)
		}
		return core.L(xs...)
	}
	emitSlide := func(w, m int64, ts []int64, tags ...string) {
		g.Emit(core.L(core.A("slide"), core.I(w), core.I(m), ints(ts)), append([]string{"slide"}, tags...)...)
	}
	pickW := func() int64 {
		if g.Intn(12) == 0 {
			return core.Pick(g, []int64{-1, 0, 10, 60})
		}
		return int64(1 + g.Intn(8))
	}
	pickM := func() int64 {
		if g.Intn(12) == 0 {
			return core.Pick(g, []int64{-1, 0, 9, 10})
		}
		return int64(1 + g.Intn(8))
	}
	// structured histories: non-decreasing, boundary gaps
	n := g.Scale(2500, 30000)
	for i := 0; i < n; i++ {
		w, m := pickW(), pickM()
		ww := w
		if ww < 1 {
			ww = 3
		}
		base := core.Pick(g, []int64{0, 0, 1, ww - 1, ww, ww + 1, 1000, 1700000000, 1700000000 + int64(g.Intn(100))})
		gaps := []int64{0, 0, 0, 1, 1, 2, ww - 1, ww - 1, ww, ww + 1, 2 * ww, 2*ww - 1, 3 * ww, ww / 2}
		ln := g.Intn(g.Scale(20, 40))
		ts := make([]int64, 0, ln)
		t := base
		for j := 0; j < ln; j++ {
			if j > 0 || g.Intn(2) == 0 {
				t += core.Pick(g, gaps)
			}
			ts = append(ts, t)
		}
		tag := "enabled"
		if w < 1 || m < 1 {
			tag = "disabled"
		}
		emitSlide(w, m, ts, tag, "monotone")
	}
	// malformed stream: negative and decreasing timestamps (outside the property; model must still agree)
	n = g.Scale(300, 3000)
	for i := 0; i < n; i++ {
		w, m := pickW(), pickM()
		ln := 1 + g.Intn(8)
		ts := make([]int64, ln)
		for j := range ts {
			ts[j] = int64(g.Intn(30) - 6)
			if g.Intn(5) == 0 {
				ts[j] = int64(1700000000 + g.Intn(20) - 10)
			}
		}
		emitSlide(w, m, ts, "malformed")
	}
	if g.Tier != "quick" {
		// exhaustive small scope: every non-decreasing history of ≤ 5 events over seconds 0..7
		var hs [][]int64
		var rec func(cur []int64, from int64)
		rec = func(cur []int64, from int64) {
			hs = append(hs, append([]int64{}, cur...))
			if len(cur) == 5 {
				return
			}
			for t := from; t < 8; t++ {
				rec(append(cur, t), t)
			}
		}
		rec(nil, 0)
		for w := int64(1); w <= 4; w++ {
			for m := int64(1); m <= 3; m++ {
				for _, h := range hs {
					emitSlide(w, m, h, "exhaustive")
				}
			}
		}
	}
	// node histories
	kinds := []string{"conn", "conn", "conn", "timeout", "nil", "connptr", "wrapped", "other", "sqlerr", "poolclosed"}
	n = g.Scale(2000, 25000)
	for i := 0; i < n; i++ {
		var fuse core.Sexp
		w, m := int64(1+g.Intn(6)), int64(1+g.Intn(5))
		switch g.Intn(10) {
		case 0:
			fuse = core.A("none")
		case 1:
			fuse = core.L(core.I(core.Pick(g, []int64{0, -1, w})), core.I(core.Pick(g, []int64{0, -2})))
		default:
			fuse = core.L(core.I(w), core.I(m))
		}
		rec := core.Pick(g, []string{"hard", "gradual", "hard", "gradual", "none"})
		up := g.Intn(5) != 0
		// ages: non-increasing, boundary values around the window
		var ages []int64
		na := g.Intn(7)
		a := core.Pick(g, []int64{0, 1, w - 1, w, w + 1, 2 * w, 3 * w})
		for j := 0; j < na; j++ {
			ages = append(ages, a)
			a -= core.Pick(g, []int64{0, 0, 1, 1, 2, w - 1, w})
			if a < 0 {
				a = 0
			}
		}
		no := 1 + g.Intn(12)
		ops := make([]core.Sexp, no)
		for j := range ops {
			switch g.Intn(8) {
			case 0:
				ops[j] = core.L(core.A("up"))
			case 1, 2, 3:
				ops[j] = core.L(core.A("g"), core.A(core.Pick(g, kinds)))
			default:
				ops[j] = core.L(core.A("e"), core.A(core.Pick(g, kinds)))
			}
		}
		tag := "node-installed"
		if fuse.IsAtom || rec == "none" {
			tag = "node-not-installed"
		} else if fuse.Nth(0).Int() < 1 || fuse.Nth(1).Int() < 1 {
			tag = "node-disabled"
		}
		g.Emit(core.L(core.A("node"), fuse, core.A(rec), core.B(up), ints(ages), core.L(ops...)), "node", tag)
	}
}
