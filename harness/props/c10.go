package props

import (
	"fmt"
	"math"
	"sort"
	"strconv"
	"strings"

	"gaeaverif/harness/core"

	"github.com/XiaoMi/Gaea/models"
	"github.com/XiaoMi/Gaea/proxy/router"
)

// C10 — Namespace.Verify versus router.NewRouter on generated configurations.
//
// Input  (cfg (SLICE…) DEFAULT (RULE…) (KEY…))
//   SLICE (name user master (slave…) capacity maxCapacity)
//   RULE  (db table parent type key (loc…) (slice…) (date…) limit (database…)
//          pcount plength hashslice seed vbt padfrom padlength modbegin modend)
//   KEY   (i N) int64 | (u N) uint64 | (s HEX) string
//   every string is a hex atom (core.Text).
// Output (V (r err|panic) (p))                          or
//        (V (r ok DEFAULT RULEOUT…) (p PLACE…))     V = accept | reject | panic: what Verify did
//   RULEOUT (db table b TYPE (idx…) ((table slice)…) (slice…) (database…) column)
//           (db table l TARGETDB TARGETTABLE column)          sorted by (db, table)
//   PLACE   one per base rule, in the same order: - (type not probed) or a list with one
//           entry per key: (ok N) | err | panic | in | (out N)   (in/out: murmur)

func init() {
	core.Register(&core.Property{
		ID: "C10",
		Rule: "namespaces built from 1-3 slices, a default slice and 0-4 shard rules of every type (valid rule per type, then each field mutated: " +
			"zero/negative/mismatched locations, unknown or repeated slices, db[a-b] lists, date ranges, partition strings, hash slices, padding parameters, " +
			"mixed-case table/parent names, empty/unknown default slice) plus 4-8 probe keys from the int64/uint64/string boundary pool; " +
			"non-trivial = Verify accepted the namespace",
		Generate: genC10,
		Exec:     execC10,
		Trivial: func(in core.Sexp, out string) bool {
			return !strings.HasPrefix(out, "(accept ")
		},
		Assumptions: []string{
			"only the slices/default-slice/shard-rule part of Namespace.Verify is modelled; name, users, allowed DBs, charset, IP list and switches are held at valid values by the harness (checked on every run by a base namespace)",
			"all generated strings are ASCII (Go byte indices = character indices; strings.ToLower = ASCII lower-casing)",
			"sums of locations, database ranges and date ranges stay far below 2^63 (Go int is 64 bits)",
			"Go's time, strconv, regexp and sort packages behave as modelled (time.Parse validity of yyyy/yyyymm/yyyymmdd, Duration saturation, Atoi)",
			"the murmur shard is modelled for an arbitrary hash function (its placements are compared as listed/unlisted only)",
		},
	})
}

type c10Slice struct {
	name, user, master string
	slaves             []string
	capacity, maxCap   int64
}

type c10Rule struct {
	db, table, parent, typ, key string
	locations                   []int
	slices, dates               []string
	limit                       int
	databases                   []string
	pcount, plength, hashSlice  string
	seed, vbt                   string
	padFrom, padLength          string
	modBegin, modEnd            string
}

type c10Key struct {
	kind string // i u s
	i    int64
	u    uint64
	s    string
}

type c10Case struct {
	slices []c10Slice
	def    string
	rules  []c10Rule
	keys   []c10Key
}

func c10Texts(xs []string) core.Sexp {
	out := make([]core.Sexp, len(xs))
	for i, x := range xs {
		out[i] = core.Text(x)
	}
	return core.L(out...)
}

func (c *c10Case) sexp() core.Sexp {
	var sl, ru, ks []core.Sexp
	for _, s := range c.slices {
		sl = append(sl, core.L(core.Text(s.name), core.Text(s.user), core.Text(s.master), c10Texts(s.slaves), core.I(s.capacity), core.I(s.maxCap)))
	}
	for _, r := range c.rules {
		ru = append(ru, core.L(core.Text(r.db), core.Text(r.table), core.Text(r.parent), core.Text(r.typ), core.Text(r.key),
			core.Ints(r.locations), c10Texts(r.slices), c10Texts(r.dates), core.I(int64(r.limit)), c10Texts(r.databases),
			core.Text(r.pcount), core.Text(r.plength), core.Text(r.hashSlice), core.Text(r.seed), core.Text(r.vbt),
			core.Text(r.padFrom), core.Text(r.padLength), core.Text(r.modBegin), core.Text(r.modEnd)))
	}
	for _, k := range c.keys {
		switch k.kind {
		case "i":
			ks = append(ks, core.L(core.A("i"), core.I(k.i)))
		case "u":
			ks = append(ks, core.L(core.A("u"), core.U(k.u)))
		default:
			ks = append(ks, core.L(core.A("s"), core.Text(k.s)))
		}
	}
	return core.L(core.A("cfg"), core.L(sl...), core.Text(c.def), core.L(ru...), core.L(ks...))
}

func c10Strs(e core.Sexp) []string {
	out := make([]string, 0, len(e.List))
	for _, x := range e.List {
		out = append(out, x.Str())
	}
	return out
}

func c10Parse(in core.Sexp) *c10Case {
	c := &c10Case{}
	for _, s := range in.Nth(1).List {
		c.slices = append(c.slices, c10Slice{name: s.Nth(0).Str(), user: s.Nth(1).Str(), master: s.Nth(2).Str(),
			slaves: c10Strs(s.Nth(3)), capacity: s.Nth(4).Int(), maxCap: s.Nth(5).Int()})
	}
	c.def = in.Nth(2).Str()
	for _, r := range in.Nth(3).List {
		var locs []int
		for _, l := range r.Nth(5).List {
			locs = append(locs, int(l.Int()))
		}
		c.rules = append(c.rules, c10Rule{db: r.Nth(0).Str(), table: r.Nth(1).Str(), parent: r.Nth(2).Str(), typ: r.Nth(3).Str(), key: r.Nth(4).Str(),
			locations: locs, slices: c10Strs(r.Nth(6)), dates: c10Strs(r.Nth(7)), limit: int(r.Nth(8).Int()), databases: c10Strs(r.Nth(9)),
			pcount: r.Nth(10).Str(), plength: r.Nth(11).Str(), hashSlice: r.Nth(12).Str(), seed: r.Nth(13).Str(), vbt: r.Nth(14).Str(),
			padFrom: r.Nth(15).Str(), padLength: r.Nth(16).Str(), modBegin: r.Nth(17).Str(), modEnd: r.Nth(18).Str()})
	}
	for _, k := range in.Nth(4).List {
		switch k.Nth(0).Atom {
		case "i":
			c.keys = append(c.keys, c10Key{kind: "i", i: k.Nth(1).Int()})
		case "u":
			c.keys = append(c.keys, c10Key{kind: "u", u: k.Nth(1).Uint()})
		default:
			c.keys = append(c.keys, c10Key{kind: "s", s: k.Nth(1).Str()})
		}
	}
	return c
}

// namespace builds a fresh models.Namespace: everything Verify looks at outside
// slices / default slice / shard rules is held at a valid value.
func (c *c10Case) namespace() *models.Namespace {
	ns := &models.Namespace{
		Name:         "ns_c10",
		Online:       true,
		AllowedDBS:   map[string]bool{"db": true},
		Users:        []*models.User{{UserName: "u", Password: "p", Namespace: "ns_c10", RWFlag: models.ReadWrite, RWSplit: models.ReadWriteSplit}},
		DefaultSlice: c.def,
	}
	for _, s := range c.slices {
		ns.Slices = append(ns.Slices, &models.Slice{Name: s.name, UserName: s.user, Password: "pw", Master: s.master,
			Slaves: append([]string(nil), s.slaves...), Capacity: int(s.capacity), MaxCapacity: int(s.maxCap), IdleTimeout: 3600})
	}
	for _, r := range c.rules {
		ns.ShardRules = append(ns.ShardRules, &models.Shard{DB: r.db, Table: r.table, ParentTable: r.parent, Type: r.typ, Key: r.key,
			Locations: append([]int(nil), r.locations...), Slices: append([]string(nil), r.slices...), DateRange: append([]string(nil), r.dates...),
			TableRowLimit: r.limit, Databases: append([]string(nil), r.databases...), PartitionCount: r.pcount, PartitionLength: r.plength,
			HashSlice: r.hashSlice, Seed: r.seed, VirtualBucketTimes: r.vbt, PadFrom: r.padFrom, PadLength: r.padLength, ModBegin: r.modBegin, ModEnd: r.modEnd})
	}
	return ns
}

func c10Outcome(f func() error) (res string) {
	defer func() {
		if e := recover(); e != nil {
			res = "panic"
		}
	}()
	if err := f(); err != nil {
		return "err"
	}
	return "ok"
}

var c10BaseChecked, c10BaseOK bool

func c10Base() bool {
	if !c10BaseChecked {
		c10BaseChecked = true
		b := &c10Case{slices: []c10Slice{{name: "s0", user: "root", master: "127.0.0.1:3306", capacity: 4, maxCap: 8}}, def: "s0"}
		c10BaseOK = c10Outcome(func() error { return b.namespace().Verify() }) == "ok"
	}
	return c10BaseOK
}

func c10ProbedType(t string) bool {
	switch t {
	case models.ShardHash, models.ShardMod, models.ShardRange, models.ShardMycatMod, models.ShardMycatLong,
		models.ShardMycatString, models.ShardMycatMURMUR, models.ShardMycatPaddingMod:
		return true
	}
	return false
}

func (k c10Key) value() interface{} {
	switch k.kind {
	case "i":
		return k.i
	case "u":
		return k.u
	}
	return k.s
}

func c10Place(rule router.Rule, idx []int, murmur bool, k c10Key) (res string) {
	defer func() {
		if e := recover(); e != nil {
			if _, isKey := e.(router.KeyError); isKey {
				res = "err"
			} else {
				res = "panic"
			}
		}
	}()
	i, err := rule.FindTableIndex(k.value())
	if err != nil {
		return "err"
	}
	if murmur {
		for _, x := range idx {
			if x == i {
				return "in"
			}
		}
		return fmt.Sprintf("(out %d)", i)
	}
	return fmt.Sprintf("(ok %d)", i)
}

func execC10(in core.Sexp) string {
	if in.Head() != "cfg" {
		return "bad"
	}
	if !c10Base() {
		return "(harness-base-namespace-rejected)"
	}
	c := c10Parse(in)
	v := map[string]string{"ok": "accept", "err": "reject", "panic": "panic"}[c10Outcome(func() error { return c.namespace().Verify() })]
	var rt *router.Router
	ns := c.namespace()
	r := c10Outcome(func() error {
		var err error
		rt, err = router.NewRouter(ns)
		return err
	})
	if r != "ok" {
		return fmt.Sprintf("(%s (r %s) (p))", v, r)
	}
	type entry struct {
		db, table string
		rule      router.Rule
	}
	var es []entry
	for db, m := range rt.GetAllRules() {
		for table, rule := range m {
			es = append(es, entry{db, table, rule})
		}
	}
	sort.Slice(es, func(i, j int) bool {
		if es[i].db != es[j].db {
			return es[i].db < es[j].db
		}
		return es[i].table < es[j].table
	})
	var rules, places []string
	for _, e := range es {
		if pdb, ptable, linked := router.VerifLinkTarget(e.rule); linked {
			rules = append(rules, fmt.Sprintf("(%s %s l %s %s %s)", core.Text(e.db), core.Text(e.table), core.Text(pdb), core.Text(ptable), core.Text(e.rule.GetShardingColumn())))
			continue
		}
		idx := e.rule.GetSubTableIndexes()
		t2s := router.VerifTableToSlice(e.rule)
		keys := make([]int, 0, len(t2s))
		for k := range t2s {
			keys = append(keys, k)
		}
		sort.Ints(keys)
		var pairs []string
		for _, k := range keys {
			pairs = append(pairs, fmt.Sprintf("(%d %d)", k, t2s[k]))
		}
		// the accessor must agree with the map
		for _, k := range keys {
			if e.rule.GetSliceIndexFromTableIndex(k) != t2s[k] {
				return "(accessor-differs-from-map)"
			}
		}
		if e.rule.GetDB() != e.db || e.rule.GetTable() != e.table {
			return "(rule-stored-under-other-key)"
		}
		rules = append(rules, fmt.Sprintf("(%s %s b %s %s (%s) %s %s %s)", core.Text(e.db), core.Text(e.table), core.Text(e.rule.GetType()),
			core.Ints(idx), strings.Join(pairs, " "), c10Texts(e.rule.GetSlices()), c10Texts(router.VerifMycatDatabases(e.rule)), core.Text(e.rule.GetShardingColumn())))
		typ := e.rule.GetType()
		if !c10ProbedType(typ) {
			places = append(places, "-")
			continue
		}
		var ps []string
		for _, k := range c.keys {
			ps = append(ps, c10Place(e.rule, idx, typ == models.ShardMycatMURMUR, k))
		}
		places = append(places, "("+strings.Join(ps, " ")+")")
	}
	return fmt.Sprintf("(%s (r ok %s %s) (p %s))", v, core.Text(rt.GetDefaultRule().GetSlice(0)), strings.Join(rules, " "), strings.Join(places, " "))
}

// ---------------------------------------------------------------- generator

var c10KeyPool = []c10Key{
	{kind: "i", i: 0}, {kind: "i", i: 1}, {kind: "i", i: -1}, {kind: "i", i: 2}, {kind: "i", i: 3}, {kind: "i", i: 7},
	{kind: "i", i: 99}, {kind: "i", i: 100}, {kind: "i", i: 101}, {kind: "i", i: 199}, {kind: "i", i: 200}, {kind: "i", i: 399}, {kind: "i", i: 400},
	{kind: "i", i: 1023}, {kind: "i", i: 1024}, {kind: "i", i: 1025}, {kind: "i", i: -1024}, {kind: "i", i: -1025}, {kind: "i", i: 511}, {kind: "i", i: 512},
	{kind: "i", i: math.MinInt64}, {kind: "i", i: math.MinInt64 + 1}, {kind: "i", i: math.MaxInt64}, {kind: "i", i: math.MaxInt64 - 1},
	{kind: "i", i: 12345678901234567}, {kind: "i", i: -98765432109876}, {kind: "i", i: 1 << 62}, {kind: "i", i: -(1 << 62)},
	{kind: "u", u: 0}, {kind: "u", u: 5}, {kind: "u", u: 1 << 63}, {kind: "u", u: 1<<63 + 5}, {kind: "u", u: 1<<63 - 1}, {kind: "u", u: math.MaxUint64},
	{kind: "s", s: "0"}, {kind: "s", s: "7"}, {kind: "s", s: "-7"}, {kind: "s", s: "+7"}, {kind: "s", s: "007"}, {kind: "s", s: ""}, {kind: "s", s: "abc"},
	{kind: "s", s: "12a"}, {kind: "s", s: "hello world"}, {kind: "s", s: "9223372036854775807"}, {kind: "s", s: "9223372036854775808"},
	{kind: "s", s: "-9223372036854775808"}, {kind: "s", s: "-9223372036854775809"}, {kind: "s", s: "18446744073709551615"}, {kind: "s", s: "18446744073709551616"},
	{kind: "s", s: "-"}, {kind: "s", s: "+"}, {kind: "s", s: " 5"}, {kind: "s", s: "user_1001"}, {kind: "s", s: "ABCDEFGHIJKLMNOPQRSTUVWXYZ"},
	// integers beyond 64 bits and near-integers: mycat_mod reads the key with big.Int.SetString(…, 10)
	{kind: "s", s: "-100000000000000000000000000001"}, {kind: "s", s: "+18446744073709551616"}, {kind: "s", s: "1_0"}, {kind: "s", s: "0x10"},
	{kind: "s", s: "--1"}, {kind: "s", s: "1e3"},
}

type c10Gen struct {
	g      *core.Gen
	names  []string // slice names of the namespace under construction
	tables int      // counter for fresh table names
}

func (x *c10Gen) coin(n int) bool { return x.g.Intn(n) == 0 }

func (x *c10Gen) pickSlices(k int) []string {
	out := make([]string, k)
	if len(x.names) == 0 {
		for i := range out {
			out[i] = "s0"
		}
		return out
	}
	if k <= len(x.names) && !x.coin(4) { // a prefix of the namespace slices, in order
		copy(out, x.names[:k])
		return out
	}
	for i := range out {
		out[i] = core.Pick(x.g, x.names)
	}
	return out
}

func (x *c10Gen) locations(k int) []int {
	out := make([]int, k)
	for i := range out {
		out[i] = 1 + x.g.Intn(3)
		if x.coin(10) {
			out[i] = 0
		}
	}
	return out
}

func sumInts(xs []int) int {
	s := 0
	for _, v := range xs {
		s += v
	}
	return s
}

func (x *c10Gen) tableName() string {
	pool := []string{"t1", "T1", "t2", "tbl_A", "tbl_a", "Tbl_B"}
	if x.coin(6) {
		return core.Pick(x.g, pool)
	}
	x.tables++
	return fmt.Sprintf("t_%d", x.tables)
}

func (x *c10Gen) databases(n int) []string {
	switch x.g.Intn(12) {
	case 0, 5, 6: // explicit list
		var out []string
		for i := 0; i < n; i++ {
			out = append(out, fmt.Sprintf("db_%d", i))
		}
		return out
	case 1: // two ranges / range + single
		if n >= 3 {
			return []string{fmt.Sprintf("db_[0-%d]", n-2), fmt.Sprintf("db_%d", n-1)}
		}
	case 2: // leading zeros, offset
		if n >= 2 {
			return []string{fmt.Sprintf("d[0%d-%d]", 5, 5+n-1)}
		}
	case 3:
		if n >= 2 {
			return []string{fmt.Sprintf("a[b][%d-%d]", 1, n)}
		}
	case 4: // a range with equal bounds (refused) next to the right number of other names
		out := []string{"e[7-7]"}
		for i := 1; i < n; i++ {
			out = append(out, fmt.Sprintf("db_%d", i))
		}
		return out
	}
	if n >= 2 {
		return []string{fmt.Sprintf("db_[0-%d]", n-1)}
	}
	return []string{"db_0"}
}

var c10BadDatabases = [][]string{
	{"db[3-1]"}, {"db[1-1]"}, {"[0-1]"}, {"d b[0-1]"}, {"db[0-1]x"}, {"db[0-1"}, {"db[a-1]"}, {"db[-1]"}, {"db[0-]"},
	{"db[0-99999999999999999999]"}, {"db\t[0-1]"}, {}, {""}, {"db_0", "db_0"}, {"db[0-1][0-1]"}, {"db[0-1]", "db[0-1]"},
}

func (x *c10Gen) partition(n int) (string, string) {
	switch x.g.Intn(5) {
	case 0:
		if n > 0 && 1024%n == 0 {
			return strconv.Itoa(n), strconv.Itoa(1024 / n)
		}
	case 1:
		if n >= 2 {
			return fmt.Sprintf("%d,1", n-1), fmt.Sprintf("%d,%d", 0, 1024) // first n-1 partitions empty
		}
	case 2:
		if n >= 2 {
			a := 1024 / n
			return fmt.Sprintf(" %d , 1 ", n-1), fmt.Sprintf("%d, %d", a, 1024-a*(n-1))
		}
	case 3:
		if n >= 3 {
			return fmt.Sprintf("1,%d,1", n-2), fmt.Sprintf("24,%d,%d", 1000/(n-2), 1000-(1000/(n-2))*(n-2))
		}
	}
	if n >= 1 {
		var cs, ls []string
		rest := 1024
		for i := 0; i < n; i++ {
			l := rest / (n - i)
			if i < n-1 && x.coin(2) {
				l = x.g.Intn(rest + 1)
			}
			if i == n-1 {
				l = rest
			}
			rest -= l
			cs = append(cs, "1")
			ls = append(ls, strconv.Itoa(l))
		}
		return strings.Join(cs, ","), strings.Join(ls, ",")
	}
	return "0", "1024"
}

var c10BadPartitions = [][2]string{
	{"3,-1", "256,256"}, {"1,1", "2048,-1024"}, {"2", "256"}, {"x", "512"}, {"2", "y"}, {"2,0", "512"}, {"", ""}, {"2", ""},
	{"1,1", "1024,1024"}, {"4,-2", "256,0"}, {"1,1,1", "9223372036854775807,9223372036854775807,1026"}, {"2", "1025"}, {"5,-3", "512,512"},
	{"9223372036854775807,9223372036854775807,4", "0,0,256"}, {"2,", "512,"}, {",2", "1,512"}, {"+2", "+512"}, {"1 1", "51 2"},
}

var c10HashSlices = []string{"2", "0", "-2", "20", "1:3", ":", "1:", ":-1", "-3:", " 3 ", "\t4", "0:0", "a", "1:b", "c:1", "1:2:3", "", "::", "+1:+2", "99999999999999999999"}
var c10Seeds = []string{"0", "5", "-1", "2147483648", "x", "", "+3", " 1"}
var c10Vbts = []string{"", "160", "3", "1", "0", "-1", "x", "+2"}
var c10Paddings = [][4]string{
	{"1", "18", "10", "16"}, {"0", "18", "10", "16"}, {"0", "5", "0", "5"}, {"1", "3", "0", "1"}, {"1", "20", "0", "20"}, {"0", "20", "0", "20"}, {"1", "2", "1", "2"},
	{"2", "18", "10", "16"}, {"-1", "18", "10", "16"}, {"1", "5", "10", "12"}, {"1", "12", "10", "13"}, {"1", "0", "0", "4"}, {"1", "-1", "0", "4"},
	{"1", "18", "-1", "4"}, {"1", "18", "4", "4"}, {"1", "18", "5", "4"}, {"1", "3", "0", "4"}, {"x", "18", "10", "16"}, {"1", "", "10", "16"}, {"1", "18", "y", "16"}, {"1", "18", "10", ""},
	{"1", "4", "0", "4"}, {"0", "4", "3", "4"}, {"1", "19", "0", "19"},
}

var c10Years = [][]string{
	{"2015-2017", "2018"}, {"2015", "2016-2018"}, {"2017-2015", "2019-2018"}, {"0000-0002"}, {"9998-9999"}, {"2016"}, {"2015-2015"},
}
var c10BadYears = [][]string{
	{"2015-2017", "2017"}, {"2015-2017", "2016-2019"}, {"2018", "2015"}, {"201"}, {"20155"}, {"abcd"}, {"2015-201x"}, {"2015-2016-2017"}, {"+201"}, {"-2015"},
	{"2015-"}, {"-"}, {""}, {"20 5"}, {"2015-20166"}, {"2015", "2015"},
}
var c10Months = [][]string{
	{"201510-201602", "201603"}, {"201512", "201601-201601"}, {"201602-201510"}, {"000001-000103"}, {"999911-999912"}, {"201501-201512", "201601-201612"},
}
var c10BadMonths = [][]string{
	{"201513"}, {"201500"}, {"201510-201613"}, {"201525-201601"}, {"201510-201602", "201602"}, {"20151"}, {"2015101"}, {"2015-10"}, {"201510-20160"},
	{"+20151"}, {"2015+1"}, {"201510-2016+1"}, {"2015ab"}, {"201510-201602-201603"}, {""}, {"201501-"}, {"201500-201501"}, {"201512-201599"},
}
var c10Days = [][]string{
	{"20151230-20160102", "20160228-20160301"}, {"20160229"}, {"20150228-20150301"}, {"20160101", "20160102", "20160103"}, {"20160305-20160301"},
	{"00000101-00000103"}, {"99991230-99991231"}, {"21000228-21000301"}, {"20000228-20000301"}, {"20151130-20151201", "20151231-20160101"},
}
var c10BadDays = [][]string{
	{"20150229"}, {"20151301"}, {"20150132"}, {"20150100"}, {"20150001"}, {"2015010"}, {"201501011"}, {"+2015010"}, {"20150101-20150100"}, {"20150101-2015013"},
	{"20150101-20150105", "20150105"}, {"20150101-20150105", "20150103-20150110"}, {"2015-01-01"}, {"abcdefgh"}, {"20150101-abcdefgh"}, {""}, {"20150101-"}, {"21000229"},
	{"20150101", "20150101"}, {"20150431-20150501"},
}

// dateRanges builds k consecutive ranges of a calendar rule. unit: y, m or d.
// Between two ranges the gap is 1 (adjacent periods, valid), larger, 0 (the next
// range starts on the last period of the previous one: overlap) or negative.
// Inside a range the bounds may be written in reverse order or as a single period.
func (x *c10Gen) dateRanges(unit byte, k int, valid bool) []string {
	g := x.g
	// position counted in periods from an origin
	pos := g.Intn(40)
	if x.coin(6) {
		pos = 0
	}
	var out []string
	// fixed origin per call so that positions are comparable
	var oy, om int
	switch unit {
	case 'y':
		oy = core.Pick(g, []int{2015, 2015, 1995, 0, 9930})
	case 'm':
		oy, om = core.Pick(g, []int{2015, 2015, 1999, 0, 9990}), core.Pick(g, []int{0, 9, 10, 11})
	}
	dayOrigin := core.Pick(g, []string{"20151220", "20160220", "21000220", "20000220", "20150120", "00000101", "99990901"})
	render := func(p int) string {
		switch unit {
		case 'y':
			return fmt.Sprintf("%04d", oy+p)
		case 'm':
			t := oy*12 + om + p
			return fmt.Sprintf("%04d%02d", t/12, t%12+1)
		}
		return c10AddDays(dayOrigin, p)
	}
	for i := 0; i < k; i++ {
		length := g.Intn(4) // periods beyond the first
		if x.coin(3) {
			length = 0
		}
		a, b := render(pos), render(pos+length)
		switch {
		case length == 0 && x.coin(2):
			out = append(out, a)
		case x.coin(5):
			out = append(out, b+"-"+a)
		default:
			out = append(out, a+"-"+b)
		}
		gap := 1 + g.Intn(3)
		if g.Intn(3) == 0 {
			gap = 1
		}
		if !valid && i < k-1 && (i == k-2 || x.coin(2)) {
			gap = core.Pick(g, []int{0, 0, -1, -length - 1})
		}
		pos += length + gap
		if pos < 0 {
			pos = 0
		}
	}
	return out
}

// c10AddDays adds n days to a yyyymmdd date with the calendar arithmetic of the
// harness itself (not the code under test).
func c10AddDays(d string, n int) string {
	y, _ := strconv.Atoi(d[:4])
	m, _ := strconv.Atoi(d[4:6])
	dd, _ := strconv.Atoi(d[6:])
	dim := func(y, m int) int {
		switch m {
		case 2:
			if y%4 == 0 && (y%100 != 0 || y%400 == 0) {
				return 29
			}
			return 28
		case 4, 6, 9, 11:
			return 30
		}
		return 31
	}
	for ; n > 0; n-- {
		dd++
		if dd > dim(y, m) {
			dd = 1
			m++
			if m > 12 {
				m = 1
				y++
			}
		}
	}
	if y > 9999 {
		y, m, dd = 9999, 12, 31
	}
	return fmt.Sprintf("%04d%02d%02d", y, m, dd)
}

func (x *c10Gen) baseRule(typ string) c10Rule {
	r := c10Rule{db: "db", table: x.tableName(), typ: typ, key: core.Pick(x.g, []string{"id", "ID", "k"})}
	if x.coin(8) {
		r.db = core.Pick(x.g, []string{"db2", "DB", ""})
	}
	k := 1 + x.g.Intn(3)
	switch typ {
	case "hash", "mod", "range", "global", "mycat_mod", "mycat_long", "mycat_string", "mycat_murmur", "mycat_padding_mod":
		r.locations = x.locations(k)
		if sumInts(r.locations) == 0 && !x.coin(3) {
			r.locations[0] = 2
		}
		r.slices = x.pickSlices(k)
	}
	if typ == "mycat_padding_mod" && sumInts(r.locations) < 2 {
		r.locations[0] += 2
	}
	n := sumInts(r.locations)
	switch typ {
	case "range":
		r.limit = core.Pick(x.g, []int{1, 7, 100, 100, 10000, 1 << 40, 1 << 62, math.MaxInt64})
	case "global":
		if x.coin(2) {
			r.databases = x.databases(n)
		}
		if x.coin(3) && len(x.names) > 0 { // the documented shape: one entry per namespace slice
			r.slices = append([]string(nil), x.names...)
			r.locations = x.locations(len(x.names))
			if sumInts(r.locations) == 0 {
				r.locations[0] = 1
			}
			if r.databases != nil {
				r.databases = x.databases(sumInts(r.locations))
			}
		}
	case "date_year":
		if x.coin(3) {
			r.dates = append([]string(nil), core.Pick(x.g, c10Years)...)
		} else {
			r.dates = x.dateRanges('y', 1+x.g.Intn(3), true)
		}
		r.slices = x.pickSlices(len(r.dates))
	case "date_month":
		if x.coin(3) {
			r.dates = append([]string(nil), core.Pick(x.g, c10Months)...)
		} else {
			r.dates = x.dateRanges('m', 1+x.g.Intn(3), true)
		}
		r.slices = x.pickSlices(len(r.dates))
	case "date_day":
		if x.coin(3) {
			r.dates = append([]string(nil), core.Pick(x.g, c10Days)...)
		} else {
			r.dates = x.dateRanges('d', 1+x.g.Intn(3), true)
		}
		r.slices = x.pickSlices(len(r.dates))
	case "mycat_mod":
		r.databases = x.databases(n)
	case "mycat_long":
		r.databases = x.databases(n)
		r.pcount, r.plength = x.partition(n)
	case "mycat_string":
		r.databases = x.databases(n)
		r.pcount, r.plength = x.partition(n)
		r.hashSlice = core.Pick(x.g, c10HashSlices[:12])
	case "mycat_murmur":
		r.databases = x.databases(n)
		r.seed = core.Pick(x.g, c10Seeds[:4])
		r.vbt = core.Pick(x.g, c10Vbts[:6])
	case "mycat_padding_mod":
		r.databases = x.databases(n)
		p := core.Pick(x.g, c10Paddings[:7])
		r.padFrom, r.padLength, r.modBegin, r.modEnd = p[0], p[1], p[2], p[3]
	}
	return r
}

// mutate changes one field of a (mostly valid) rule to a boundary or malformed value.
func (x *c10Gen) mutate(r *c10Rule) string {
	hashFamily := len(r.locations) > 0 || r.typ == "hash" || r.typ == "mod" || r.typ == "range" || r.typ == "global" || strings.HasPrefix(r.typ, "mycat")
	// type-specific mutations are tried first half of the time
	specific := map[string][]int{
		"range": {6}, "global": {7, 5}, "mycat_mod": {7}, "mycat_long": {8, 7}, "mycat_string": {8, 9, 7},
		"mycat_murmur": {9, 7}, "mycat_padding_mod": {9, 9, 7}, "date_year": {10, 10, 11, 14}, "date_month": {10, 10, 11, 14}, "date_day": {10, 10, 11, 14},
	}
	for try := 0; try < 8; try++ {
		pick := x.g.Intn(16)
		if sp := specific[r.typ]; try == 0 && len(sp) > 0 && x.coin(2) {
			pick = core.Pick(x.g, sp)
		}
		switch pick {
		case 0:
			if hashFamily && len(r.locations) > 0 {
				r.locations[x.g.Intn(len(r.locations))] = core.Pick(x.g, []int{-1, -2, -3})
				return "mut-negative-location"
			}
		case 1:
			if hashFamily {
				for i := range r.locations {
					r.locations[i] = 0
				}
				return "mut-zero-locations"
			}
		case 2:
			if hashFamily {
				if x.coin(2) && len(r.locations) > 0 {
					r.locations = r.locations[:len(r.locations)-1]
				} else {
					r.locations = append(r.locations, 1)
				}
				return "mut-locations-count"
			}
		case 3:
			if hashFamily {
				r.locations, r.slices = nil, nil
				return "mut-empty-locations"
			}
		case 4:
			if len(r.slices) > 0 {
				r.slices[x.g.Intn(len(r.slices))] = core.Pick(x.g, []string{"nope", "", "S0"})
				return "mut-unknown-slice"
			}
		case 5:
			if len(r.slices) > 1 {
				r.slices[1] = r.slices[0]
				return "mut-repeated-slice"
			}
		case 6:
			if r.typ == "range" {
				r.limit = core.Pick(x.g, []int{0, -1, math.MinInt64})
				return "mut-row-limit"
			}
		case 7:
			if strings.HasPrefix(r.typ, "mycat") || r.typ == "global" {
				if x.coin(2) {
					r.databases = append([]string(nil), core.Pick(x.g, c10BadDatabases)...)
				} else {
					r.databases = x.databases(sumInts(r.locations) + core.Pick(x.g, []int{-1, 1}))
				}
				return "mut-databases"
			}
		case 8:
			if r.typ == "mycat_long" || r.typ == "mycat_string" {
				p := core.Pick(x.g, c10BadPartitions)
				r.pcount, r.plength = p[0], p[1]
				return "mut-partition"
			}
		case 9:
			if r.typ == "mycat_string" {
				r.hashSlice = core.Pick(x.g, c10HashSlices)
				return "mut-hash-slice"
			}
			if r.typ == "mycat_murmur" {
				r.seed, r.vbt = core.Pick(x.g, c10Seeds), core.Pick(x.g, c10Vbts)
				return "mut-murmur"
			}
			if r.typ == "mycat_padding_mod" {
				p := core.Pick(x.g, c10Paddings)
				r.padFrom, r.padLength, r.modBegin, r.modEnd = p[0], p[1], p[2], p[3]
				return "mut-padding"
			}
		case 10:
			touching := x.coin(2)
			switch r.typ {
			case "date_year":
				r.dates = append([]string(nil), core.Pick(x.g, c10BadYears)...)
				if touching {
					r.dates = x.dateRanges('y', 2+x.g.Intn(2), false)
				}
			case "date_month":
				r.dates = append([]string(nil), core.Pick(x.g, c10BadMonths)...)
				if touching {
					r.dates = x.dateRanges('m', 2+x.g.Intn(2), false)
				}
			case "date_day":
				r.dates = append([]string(nil), core.Pick(x.g, c10BadDays)...)
				if touching {
					r.dates = x.dateRanges('d', 2+x.g.Intn(2), false)
				}
			default:
				continue
			}
			if touching {
				r.slices = x.pickSlices(len(r.dates))
				return "mut-date-overlap"
			}
			if !x.coin(4) {
				r.slices = x.pickSlices(len(r.dates))
			}
			return "mut-date-range"
		case 11:
			if strings.HasPrefix(r.typ, "date") {
				// cross the parsers: a day list on a month rule …
				r.dates = append([]string(nil), core.Pick(x.g, [][]string{{"2015"}, {"201501"}, {"20150101"}, {"2015-2016"}, {"201501-201503"}})...)
				r.slices = x.pickSlices(len(r.dates))
				return "mut-date-kind"
			}
		case 12:
			r.typ = core.Pick(x.g, []string{"default", "unknown", "HASH", "", "Mod", "linked"})
			return "mut-type"
		case 13:
			r.table = core.Pick(x.g, []string{"t1", "T1", "tbl_a", "TBL_A", ""})
			return "mut-table-name"
		case 14:
			if len(r.dates) > 1 && strings.HasPrefix(r.typ, "date") {
				r.dates[0], r.dates[1] = r.dates[1], r.dates[0]
				return "mut-date-order"
			}
		case 15:
			if len(r.locations) > 0 {
				r.locations[x.g.Intn(len(r.locations))] = core.Pick(x.g, []int{0, 4, 5})
				return "mut-location-size"
			}
		}
	}
	return "mut-none"
}

var c10Types = []string{"hash", "mod", "range", "global", "date_year", "date_month", "date_day", "mycat_mod", "mycat_long", "mycat_string", "mycat_murmur", "mycat_padding_mod"}

func (x *c10Gen) oneCase() (*c10Case, []string) {
	g := x.g
	c := &c10Case{}
	var tags []string
	// slices
	ns := 1 + g.Intn(3)
	pool := []string{"s0", "s1", "s2"}
	for i := 0; i < ns; i++ {
		s := c10Slice{name: pool[i], user: "root", master: "127.0.0.1:3306", capacity: 4, maxCap: 8}
		if x.coin(3) {
			s.slaves = []string{"127.0.0.1:3307"}
		}
		c.slices = append(c.slices, s)
	}
	if x.coin(16) { // malformed slice section
		tags = append(tags, "mut-slices")
		switch g.Intn(9) {
		case 0:
			c.slices = nil
		case 1:
			c.slices[len(c.slices)-1].name = c.slices[0].name
		case 2:
			c.slices[0].name = ""
		case 3:
			c.slices[0].user = ""
		case 4:
			c.slices[0].master, c.slices[0].slaves = "", nil
		case 5:
			c.slices[0].slaves = []string{"127.0.0.1:3307", ""}
		case 6:
			c.slices[0].capacity = core.Pick(g, []int64{0, -1, 9})
		case 7:
			c.slices[0].maxCap = core.Pick(g, []int64{0, -1, 3})
		case 8:
			c.slices[0].master = ""
			c.slices[0].slaves = []string{"127.0.0.1:3307"}
		}
	}
	x.names = nil
	for _, s := range c.slices {
		x.names = append(x.names, s.name)
	}
	// default slice
	if len(x.names) > 0 {
		c.def = core.Pick(g, x.names)
	}
	if x.coin(16) {
		c.def = core.Pick(g, []string{"", "", "nope", "S0"})
		tags = append(tags, "mut-default-slice")
	}
	// rules
	nr := core.Pick(g, []int{0, 1, 1, 1, 1, 1, 2, 2, 2, 3, 3, 4})
	mutated := false
	for i := 0; i < nr; i++ {
		typ := core.Pick(g, c10Types)
		r := x.baseRule(typ)
		tags = append(tags, "type-"+typ)
		if !mutated && x.coin(4) {
			mutated = true
			tags = append(tags, x.mutate(&r))
		}
		c.rules = append(c.rules, r)
		// linked children
		if x.coin(5) {
			l := c10Rule{db: r.db, table: x.tableName(), typ: "linked", key: "pid", parent: r.table}
			switch g.Intn(14) {
			case 0, 5, 6:
				l.parent = strings.ToUpper(r.table)
			case 1:
				l.parent = "missing"
			case 2:
				l.db = "otherdb"
			case 3:
				l.slices = []string{"nope"}
			case 4, 7:
				l.slices = x.pickSlices(1)
			}
			tags = append(tags, "type-linked")
			if x.coin(4) { // before its parent
				c.rules = append(c.rules[:len(c.rules)-1], l, r)
			} else {
				c.rules = append(c.rules, l)
			}
			if x.coin(10) { // linked to a linked rule
				c.rules = append(c.rules, c10Rule{db: l.db, table: x.tableName(), typ: "linked", key: "pid", parent: l.table})
				tags = append(tags, "linked-to-linked")
			}
		}
	}
	if !mutated {
		tags = append(tags, "all-fields-valid")
	}
	// keys
	nk := 4 + g.Intn(5)
	for i := 0; i < nk; i++ {
		if x.coin(5) {
			c.keys = append(c.keys, c10Key{kind: "i", i: int64(g.Rand.Uint64() >> uint(g.Intn(64)))})
		} else {
			c.keys = append(c.keys, core.Pick(g, c10KeyPool))
		}
	}
	return c, tags
}

func genC10(g *core.Gen) {
	x := &c10Gen{g: g}
	// one valid namespace per rule type, probed with the whole key pool
	for _, typ := range c10Types {
		x.names = []string{"s0", "s1"}
		c := &c10Case{slices: []c10Slice{{name: "s0", user: "root", master: "m0", capacity: 1, maxCap: 1}, {name: "s1", user: "root", slaves: []string{"r1"}, capacity: 2, maxCap: 8}}, def: "s1"}
		r := x.baseRule(typ)
		c.rules = []c10Rule{r, {db: r.db, table: "child_of_" + strings.ToLower(r.table), typ: "linked", key: "pid", parent: strings.ToUpper(r.table)}}
		c.keys = c10KeyPool
		g.Emit(c.sexp(), "type-"+typ, "type-linked", "key-pool")
	}
	n := g.Scale(2000, 12000)
	for i := 0; i < n; i++ {
		c, tags := x.oneCase()
		g.Emit(c.sexp(), tags...)
	}
}
