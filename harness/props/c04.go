package props

import (
	"encoding/json"
	"fmt"
	"sort"
	"strconv"
	"strings"
	"sync"

	"gaeaverif/harness/core"

	"github.com/XiaoMi/Gaea/log"
	"github.com/XiaoMi/Gaea/models"
	"github.com/XiaoMi/Gaea/parser"
	"github.com/XiaoMi/Gaea/proxy/plan"
	"github.com/XiaoMi/Gaea/proxy/router"
	"github.com/XiaoMi/Gaea/proxy/sequence"
)

// C04 — statements that involve only global tables (proxy/plan, proxy/router).
//
// Line: (g04 (ns SLICE…) (valid DB…) (cfgs GCFG…) STMT)
//   GCFG  (gcfg DB (locations…) (slices…) (databases expanded…) (databases as configured…))   one per table reference
//   STMT  (stmt select|update|delete|insert SQLHEX (NAME…) (NAME…) (NAME…))    names of the field list / FROM part / rest, in text order
//   NAME  (POS SCHEMA TABLE NAME ALIAS WHOLE)
// The k-th table reference of the statement is the global table g04Tables[k].
// Exec builds a namespace from (ns, cfgs), plans SQLHEX and reports, per
// produced statement, slice, database and the chains of back-quoted
// identifiers of the SQL text. A SELECT is planned repeatedly (the copy is
// chosen with math/rand) and the distinct statements are reported.

var g04Tables = []string{"ga", "gb"}

const g04DB = "db_g"

type g04Cfg struct {
	locations []int
	slices    []string
	dbsRaw    []string // as configured
	dbs       []string // expanded (nil: implicit)
}

func (c *g04Cfg) sexp() core.Sexp {
	return core.L(core.A("gcfg"), core.A(g04DB), core.Ints(c.locations), insIdents(c.slices), insIdents(c.dbs), insIdents(c.dbsRaw))
}

func g04CfgFromSexp(s core.Sexp) *g04Cfg {
	c := &g04Cfg{}
	for _, x := range s.Nth(2).List {
		c.locations = append(c.locations, int(x.Int()))
	}
	for _, x := range s.Nth(3).List {
		c.slices = append(c.slices, x.Atom)
	}
	for _, x := range s.Nth(5).List {
		c.dbsRaw = append(c.dbsRaw, x.Atom)
	}
	return c
}

func (c *g04Cfg) json(table string) string {
	loc, _ := json.Marshal(c.locations)
	sl, _ := json.Marshal(c.slices)
	s := fmt.Sprintf(`{"db":"%s","table":"%s","type":"global","locations":%s,"slices":%s`, g04DB, table, loc, sl)
	if len(c.dbsRaw) > 0 {
		d, _ := json.Marshal(c.dbsRaw)
		s += `,"databases":` + string(d)
	}
	return s + "}"
}

var (
	g04Mu      sync.Mutex
	g04Routers = map[string]*router.Router{}
	g04Errs    = map[string]error{}
)

// g04Router builds (and caches) the router of a namespace with the given
// slices, one global rule per table and one more logical database.
func g04Router(ns []string, cfgs []*g04Cfg) (*router.Router, error) {
	var shards []string
	for i, c := range cfgs {
		shards = append(shards, c.json(g04Tables[i]))
	}
	shards = append(shards, fmt.Sprintf(`{"db":"db_o","table":"oz","type":"global","locations":[1],"slices":["%s"]}`, ns[0]))
	key := strings.Join(ns, ",") + "|" + strings.Join(shards, ",")
	g04Mu.Lock()
	defer g04Mu.Unlock()
	if rt, ok := g04Routers[key]; ok {
		return rt, g04Errs[key]
	}
	log.SetGlobalLogger(nullLogger{})
	nsJSON := `{"name":"ns_g04","online":true,"allowed_dbs":{"db_g":true,"db_o":true},"default_phy_dbs":{"db_g":"db_g","db_o":"db_o"},
"slices":[` + insSliceJSON(ns...) + `],"shard_rules":[` + strings.Join(shards, ",") + `],
"users":[{"user_name":"u","password":"p","namespace":"ns_g04","rw_flag":2,"rw_split":1}],"default_slice":"` + ns[0] + `"}`
	m := &models.Namespace{}
	var rt *router.Router
	err := json.Unmarshal([]byte(nsJSON), m)
	if err == nil {
		rt, err = router.NewRouter(m)
	}
	if len(g04Routers) > 4096 {
		g04Routers = map[string]*router.Router{}
		g04Errs = map[string]error{}
	}
	g04Routers[key] = rt
	g04Errs[key] = err
	return rt, err
}

// ---- statement builder: SQL text and name skeleton side by side ----

type g04Name struct {
	pos, schema, table, name, alias string
	whole                           bool
}

func (n g04Name) sexp() core.Sexp {
	return core.L(core.A(n.pos), insIdent(n.schema), insIdent(n.table), insIdent(n.name), insIdent(n.alias), core.B(n.whole))
}

type g04Builder struct {
	g       *core.Gen
	aliases []string // alias of table k ("" if none)
	ntab    int
	badLeft int // unresolvable qualifiers still to place (malformed stream)
	tags    map[string]bool
}

var g04Cols = []string{"id", "a", "b", "c"}

// col renders a column of table k with a random qualification.
func (b *g04Builder) col(pos string, k int) (string, g04Name) {
	g := b.g
	c := core.Pick(g, g04Cols)
	n := g04Name{pos: pos, name: c}
	tq := g04Tables[k]
	if b.aliases[k] != "" && g.Intn(3) != 0 {
		tq = b.aliases[k]
	}
	if b.badLeft > 0 && g.Intn(3) == 0 {
		b.badLeft--
		switch g.Intn(3) {
		case 0:
			n.table = "zz"
		case 1:
			n.schema, n.table = g04DB, "zz"
		default:
			n.schema, n.table = "nodb", tq
		}
		b.tags["bad-qualifier="+pos] = true
	} else {
		switch g.Intn(10) {
		case 0, 1, 2:
			// bare
		case 3, 4, 5:
			n.table = tq
		case 6:
			n.schema, n.table = "db_o", tq // another logical database the router knows
		default:
			n.schema, n.table = g04DB, tq
		}
	}
	s := "`" + c + "`"
	if n.table != "" {
		s = "`" + n.table + "`." + s
	}
	if n.schema != "" {
		s = "`" + n.schema + "`." + s
	}
	if n.schema != "" {
		b.tags["schema@"+pos] = true
	}
	return s, n
}

func (b *g04Builder) lit() string {
	return core.Pick(b.g, []string{"1", "2", "17", "'x'", "0", "'db_g'", "3.5"})
}

// pred renders one predicate over the tables of the statement.
func (b *g04Builder) pred() (string, []g04Name) {
	g := b.g
	k := g.Intn(b.ntab)
	switch g.Intn(12) {
	case 0, 1, 2:
		s, n := b.col("condition-operand", k)
		return s + " " + core.Pick(g, []string{"=", "!=", "<", "<=", ">", ">="}) + " " + b.lit(), []g04Name{n}
	case 3:
		s, n := b.col("condition-operand", k)
		return b.lit() + " " + core.Pick(g, []string{"=", "<", ">="}) + " " + s, []g04Name{n}
	case 4:
		s, n := b.col("condition-operand", k)
		not := ""
		if g.Intn(3) == 0 {
			not = "NOT "
		}
		return s + " " + not + "IN (1,2,3)", []g04Name{n}
	case 5:
		s, n := b.col("condition-operand", k)
		not := ""
		if g.Intn(3) == 0 {
			not = "NOT "
		}
		return s + " " + not + "BETWEEN 1 AND 9", []g04Name{n}
	case 6:
		s, n := b.col("condition-other", k)
		return s + " LIKE 'x%'", []g04Name{n}
	case 7:
		s, n := b.col("condition-other", k)
		return s + " IS " + core.Pick(g, []string{"NULL", "NOT NULL"}), []g04Name{n}
	case 8:
		s, n := b.col("condition-other", k)
		return "NOT (" + s + " = 1)", []g04Name{n}
	case 9:
		s, n := b.col("nested-condition-column", k)
		if g.Intn(2) == 0 {
			return "ABS(" + s + ") = 1", []g04Name{n}
		}
		return s + "+1 > 2", []g04Name{n}
	case 10:
		s1, n1 := b.col("condition-operand", k)
		s2, n2 := b.col("condition-operand", g.Intn(b.ntab))
		return s1 + " = " + s2, []g04Name{n1, n2}
	default:
		s1, n1 := b.pred()
		s2, n2 := b.pred()
		return "(" + s1 + " " + core.Pick(g, []string{"AND", "OR"}) + " " + s2 + ")", append(n1, n2...)
	}
}

func (b *g04Builder) where() (string, []g04Name) {
	g := b.g
	if g.Intn(4) == 0 {
		return "", nil
	}
	s, ns := b.pred()
	for g.Intn(3) == 0 {
		s2, n2 := b.pred()
		s += " " + core.Pick(g, []string{"AND", "OR"}) + " " + s2
		ns = append(ns, n2...)
	}
	return " WHERE " + s, ns
}

// tableRef renders the k-th table reference.
func (b *g04Builder) tableRef(k int, allowAlias bool) (string, g04Name) {
	g := b.g
	n := g04Name{pos: "table", table: g04Tables[k]}
	s := "`" + g04Tables[k] + "`"
	if g.Intn(2) == 0 {
		n.schema = g04DB
		s = "`" + g04DB + "`." + s
		b.tags["schema@table"] = true
	}
	if allowAlias && b.aliases[k] != "" {
		n.alias = b.aliases[k]
		s += " AS `" + n.alias + "`"
	}
	return s, n
}

func (b *g04Builder) orderBy(kw string) (string, []g04Name) {
	s, n := b.col("by-item", b.g.Intn(b.ntab))
	return " " + kw + " " + s, []g04Name{n}
}

func g04Stmt(g *core.Gen, kind string, ntab int, bad int) (sql string, fields, from, tail []g04Name, tags []string) {
	b := &g04Builder{g: g, ntab: ntab, badLeft: bad, tags: map[string]bool{}, aliases: make([]string, ntab)}
	aliasOK := kind == "select" || kind == "update"
	for k := 0; k < ntab; k++ {
		if aliasOK && g.Intn(3) == 0 {
			b.aliases[k] = fmt.Sprintf("x%d", k)
		}
	}
	switch kind {
	case "select":
		var fs []string
		if g.Intn(3) == 0 {
			fs = append(fs, "*")
		} else {
			for i := 0; i < 1+g.Intn(3); i++ {
				k := g.Intn(ntab)
				switch g.Intn(8) {
				case 0:
					s, n := b.col("select-field", k)
					fs = append(fs, "COUNT("+s+")")
					fields = append(fields, n)
				case 1:
					s, n := b.col("select-field", k)
					fs = append(fs, s+"+1")
					fields = append(fields, n)
				case 2:
					tq := g04Tables[k]
					if b.aliases[k] != "" {
						tq = b.aliases[k]
					}
					n := g04Name{pos: "wildcard-field", table: tq, name: "*"}
					s := "`" + tq + "`.*"
					if g.Intn(2) == 0 {
						n.schema = g04DB
						s = "`" + g04DB + "`." + s
						b.tags["schema@wildcard-field"] = true
					}
					fs = append(fs, s)
					fields = append(fields, n)
				default:
					s, n := b.col("select-field", k)
					n.whole = true
					fs = append(fs, s)
					fields = append(fields, n)
				}
			}
		}
		sql = "SELECT " + strings.Join(fs, ",") + " FROM "
		s0, n0 := b.tableRef(0, true)
		sql += s0
		from = append(from, n0)
		if ntab == 2 {
			s1, n1 := b.tableRef(1, true)
			from = append(from, n1)
			if g.Intn(4) == 0 {
				sql += " JOIN " + s1
			} else {
				c0, m0 := b.col("condition-operand", 0)
				c1, m1 := b.col("condition-operand", 1)
				sql += " JOIN " + s1 + " ON " + c0 + " = " + c1
				from = append(from, m0, m1)
			}
		}
		w, wn := b.where()
		sql += w
		tail = append(tail, wn...)
		if g.Intn(6) == 0 {
			s, n := b.orderBy("GROUP BY")
			sql += s
			tail = append(tail, n...)
			b.tags["groupby"] = true
		}
		if g.Intn(3) == 0 {
			s, n := b.orderBy("ORDER BY")
			sql += s
			tail = append(tail, n...)
			b.tags["orderby"] = true
		}
		if g.Intn(5) == 0 {
			sql += " LIMIT " + strconv.Itoa(1+g.Intn(9))
		}
	case "update":
		s0, n0 := b.tableRef(0, true)
		from = append(from, n0)
		sql = "UPDATE " + s0 + " SET "
		var as []string
		for i := 0; i < 1+g.Intn(2); i++ {
			l, ln := b.col("set-column", 0)
			tail = append(tail, ln)
			if g.Intn(3) == 0 {
				r, rn := b.col("update-set-value", 0)
				as = append(as, l+" = "+r+"+1")
				tail = append(tail, rn)
			} else {
				as = append(as, l+" = "+b.lit())
			}
		}
		sql += strings.Join(as, ", ")
		w, wn := b.where()
		sql += w
		tail = append(tail, wn...)
		if g.Intn(4) == 0 {
			s, n := b.orderBy("ORDER BY")
			sql += s
			tail = append(tail, n...)
			b.tags["orderby"] = true
		}
		if g.Intn(5) == 0 {
			sql += " LIMIT 3"
		}
	case "delete":
		s0, n0 := b.tableRef(0, false)
		from = append(from, n0)
		sql = "DELETE FROM " + s0
		w, wn := b.where()
		sql += w
		tail = append(tail, wn...)
		if g.Intn(4) == 0 {
			s, n := b.orderBy("ORDER BY")
			sql += s
			tail = append(tail, n...)
			b.tags["orderby"] = true
		}
		if g.Intn(5) == 0 {
			sql += " LIMIT 3"
		}
	case "insert":
		s0, n0 := b.tableRef(0, false)
		from = append(from, n0)
		verb := core.Pick(g, []string{"INSERT INTO", "INSERT INTO", "REPLACE INTO", "INSERT IGNORE INTO"})
		bad := b.badLeft
		b.badLeft = 0 // insert columns are not looked up
		ncol := 1 + g.Intn(3)
		var cs, vs []string
		for i := 0; i < ncol; i++ {
			c, cn := b.col("insert-column", 0)
			cs = append(cs, c)
			vs = append(vs, b.lit())
			tail = append(tail, cn)
		}
		if g.Intn(4) == 0 {
			var as []string
			for i := range cs {
				as = append(as, cs[i]+" = "+vs[i])
			}
			sql = verb + " " + s0 + " SET " + strings.Join(as, ", ")
		} else {
			rows := "(" + strings.Join(vs, ",") + ")"
			if g.Intn(2) == 0 {
				rows += ",(" + strings.Join(vs, ",") + ")"
			}
			sql = verb + " " + s0 + " (" + strings.Join(cs, ",") + ") VALUES " + rows
		}
		if !strings.HasPrefix(verb, "REPLACE") && g.Intn(5) == 0 {
			c, cn := b.col("insert-column", 0)
			sql += " ON DUPLICATE KEY UPDATE " + c + " = 5"
			tail = append(tail, cn)
		}
		_ = bad
	}
	for t := range b.tags {
		tags = append(tags, t)
	}
	sort.Strings(tags)
	return
}

func g04GenCfg(g *core.Gen, ns []string) (*g04Cfg, string) {
	c := &g04Cfg{}
	k := 1 + g.Intn(len(ns))
	if k > 3 {
		k = 3
	}
	perm := g.Rand.Perm(len(ns))
	if g.Intn(3) == 0 { // namespace order
		sort.Ints(perm)
	}
	total := 0
	for i := 0; i < k; i++ {
		c.slices = append(c.slices, ns[perm[i]])
		l := core.Pick(g, []int{1, 1, 2, 2, 3, 0, 1, 2})
		c.locations = append(c.locations, l)
		total += l
	}
	shape := "implicit-dbs"
	switch g.Intn(6) {
	case 0, 1:
		if total >= 2 {
			shape = "range-dbs"
			c.dbsRaw = []string{fmt.Sprintf("db_g_[0-%d]", total-1)}
		}
	case 2:
		if total >= 1 {
			shape = "listed-dbs"
			for i := 0; i < total; i++ {
				c.dbsRaw = append(c.dbsRaw, fmt.Sprintf("db_p%d", i))
			}
			if g.Intn(3) == 0 {
				c.dbsRaw[g.Intn(total)] = g04DB // one copy lives in a database named like the logical one
			}
		}
	case 3:
		if total >= 3 {
			shape = "mixed-dbs"
			c.dbsRaw = []string{"db_first", fmt.Sprintf("db_g_[1-%d]", total-1)}
		}
	}
	if g.Intn(40) == 0 { // count mismatch: the router must refuse the namespace
		shape = "dbs-count-mismatch"
		c.dbsRaw = []string{"db_q0", "db_q1", "db_q2", "db_q3", "db_q4", "db_q5", "db_q6", "db_q7", "db_q8", "db_q9"}
	}
	if g.Intn(60) == 0 {
		shape = "locations-count-mismatch"
		c.locations = append(c.locations, 1)
	}
	if len(c.dbsRaw) > 0 {
		dbs, err := router.GetRealDatabases(c.dbsRaw)
		if err != nil {
			panic(err)
		}
		c.dbs = dbs
	}
	return c, shape
}

func genC04(g *core.Gen) {
	n := g.Scale(3000, 30000)
	all := []string{"slice-0", "slice-1", "slice-2", "slice-3"}
	for i := 0; i < n; i++ {
		nsN := 1 + g.Intn(4)
		perm := g.Rand.Perm(4)
		var ns []string
		for _, p := range perm[:nsN] {
			ns = append(ns, all[p])
		}
		if g.Intn(2) == 0 {
			sort.Strings(ns)
		}
		cfg, shape := g04GenCfg(g, ns)
		kind := core.Pick(g, []string{"select", "select", "select", "update", "delete", "insert"})
		ntab := 1
		if kind == "select" && g.Intn(3) == 0 {
			ntab = 2
		}
		bad := 0
		if g.Intn(25) == 0 {
			bad = 1
		}
		sql, fields, from, tail, tags := g04Stmt(g, kind, ntab, bad)
		if _, err := parser.ParseSQL(sql); err != nil {
			panic("c04: generated statement does not parse: " + sql + ": " + err.Error())
		}
		cfgs := []core.Sexp{core.A("cfgs")}
		for k := 0; k < ntab; k++ {
			cfgs = append(cfgs, cfg.sexp())
		}
		names := func(ns []g04Name) core.Sexp {
			out := make([]core.Sexp, len(ns))
			for i, x := range ns {
				out[i] = x.sexp()
			}
			return core.L(out...)
		}
		in := core.L(core.A("g04"),
			core.L(append([]core.Sexp{core.A("ns")}, insIdents(ns).List...)...),
			core.L(core.A("valid"), core.A(g04DB), core.A("db_o")),
			core.L(cfgs...),
			core.L(core.A("stmt"), core.A(kind), core.Text(sql), names(fields), names(from), names(tail)))
		sameOrder := "rule-slices=prefix-of-namespace"
		for j, s := range cfg.slices {
			if j >= len(ns) || ns[j] != s {
				sameOrder = "rule-slices=other-order-or-subset"
			}
		}
		total := 0
		for _, l := range cfg.locations {
			total += l
		}
		tags = append(tags, "stmt="+kind, fmt.Sprintf("tables=%d", ntab), "layout="+shape, sameOrder, fmt.Sprintf("copies=%d", total))
		g.Emit(in, tags...)
	}
}

// g04Chains extracts the chains of back-quoted identifiers of a SQL text.
func g04Chains(sql string) string {
	var chains []string
	i := 0
	for i < len(sql) {
		switch sql[i] {
		case '\'':
			i++
			for i < len(sql) {
				if sql[i] == '\\' {
					i += 2
					continue
				}
				if sql[i] == '\'' {
					if i+1 < len(sql) && sql[i+1] == '\'' {
						i += 2
						continue
					}
					break
				}
				i++
			}
			i++
		case '`':
			var chain []string
			for {
				j := strings.IndexByte(sql[i+1:], '`')
				if j < 0 {
					return "(unterminated)"
				}
				chain = append(chain, insIdent(sql[i+1:i+1+j]).String())
				i = i + 1 + j + 1
				if i+1 < len(sql) && sql[i] == '.' && sql[i+1] == '`' {
					i++
					continue
				}
				if i+1 < len(sql) && sql[i] == '.' && sql[i+1] == '*' {
					chain = append(chain, "*")
					i += 2
				}
				break
			}
			chains = append(chains, "("+strings.Join(chain, " ")+")")
		default:
			i++
		}
	}
	return "(" + strings.Join(chains, " ") + ")"
}

func execC04(in core.Sexp) string {
	var ns []string
	for _, x := range in.Nth(1).List[1:] {
		ns = append(ns, x.Atom)
	}
	var cfgs []*g04Cfg
	copies := 0
	for _, x := range in.Nth(3).List[1:] {
		c := g04CfgFromSexp(x)
		cfgs = append(cfgs, c)
	}
	for _, l := range cfgs[0].locations {
		if l > 0 {
			copies += l
		}
	}
	rt, err := g04Router(ns, cfgs)
	if err != nil {
		return "err"
	}
	st := in.Nth(4)
	kind := st.Nth(1).Atom
	sql := st.Nth(2).Str()
	phy := map[string]string{"db_g": "db_g", "db_o": "db_o"}
	ps := parser.New()
	planOnce := func() ([]string, error) {
		node, err := ps.ParseOneStmt(sql, "", "")
		if err != nil {
			return nil, fmt.Errorf("parse")
		}
		p, err := plan.BuildPlan(node, phy, g04DB, sql, rt, sequence.NewSequenceManager(), nil)
		if err != nil {
			return nil, err
		}
		m := plan.VerifPlanSQLs(p)
		if m == nil {
			return nil, fmt.Errorf("not a shard plan: %T", p)
		}
		var entries []string
		for slice, dbs := range m {
			for db, sqls := range dbs {
				for _, q := range sqls {
					entries = append(entries, "("+insIdent(slice).String()+" "+insIdent(db).String()+" "+g04Chains(q)+")")
				}
			}
		}
		sort.Strings(entries)
		return entries, nil
	}
	if kind != "select" {
		entries, err := planOnce()
		if err != nil {
			return "err"
		}
		if len(entries) == 0 {
			return "(ok)"
		}
		return "(ok " + strings.Join(entries, " ") + ")"
	}
	// reads: the copy is picked with math/rand; plan often enough to see every copy
	tries := 16*copies + 16
	seen := map[string]bool{}
	most := 0
	for t := 0; t < tries; t++ {
		entries, err := planOnce()
		if err != nil {
			return "err"
		}
		if len(entries) > most {
			most = len(entries)
		}
		for _, e := range entries {
			seen[e] = true
		}
	}
	var all []string
	for e := range seen {
		all = append(all, e)
	}
	sort.Strings(all)
	out := "(read " + strconv.Itoa(most)
	for _, e := range all {
		out += " " + e
	}
	return out + ")"
}

func init() {
	core.Register(&core.Property{
		ID: "C04",
		Rule: "namespaces of 1–4 slices in any order; a global-table rule on 1–3 of them (same order as the namespace, another order, or a subset), 0–3 copies per slice, physical databases implicit, `db_g_[0-n]`, listed, mixed, or one named like the logical database; router-refused layouts (count mismatches); " +
			"statements over one global table (SELECT, UPDATE, DELETE, INSERT/REPLACE in VALUES and SET form, ON DUPLICATE KEY) or two (SELECT … JOIN … ON), tables and columns bare / table- / alias- / schema-qualified (also with another known logical database), aliases, " +
			"columns in select fields (plain, inside COUNT()/arithmetic, wildcards), comparison operands on either side, IN, BETWEEN, LIKE, IS NULL, NOT(…), function/arithmetic operands, column = column, AND/OR/parentheses, GROUP BY, ORDER BY, LIMIT, SET columns and values; a malformed stream with one unresolvable qualifier; " +
			"a SELECT is planned 16·copies+16 times and the set of distinct statements compared with the model's set over every pick; non-trivial = statement accepted",
		Generate: genC04,
		Exec:     execC04,
		Trivial: func(in core.Sexp, out string) bool {
			return !strings.HasPrefix(out, "(ok") && !strings.HasPrefix(out, "(read")
		},
		Assumptions: []string{
			"global tables joined in one statement have the same layout (the planner takes the layout of whichever the map iteration yields first; the code comments require the configurations to agree)",
			"a copy of a global table is identified by (slice, physical database); `databases` lists are expanded by router.GetRealDatabases (its parsing is C10)",
			"math/rand reaches every copy within 16·copies+16 plannings of a SELECT (probability of a miss < 1e-7 per case)",
			"a planner panic is recovered by SessionExecutor.handleQuery and reaches the client as an error: the oracle treats it as a rejection",
			"column and table names of the generated statements are lower-case (handleExtraFieldList compares lower-cased names)",
		},
	})
}
