package props

import (
	"encoding/json"
	"fmt"
	"sort"
	"strconv"
	"strings"

	"gaeaverif/harness/core"

	"github.com/XiaoMi/Gaea/log"
	"github.com/XiaoMi/Gaea/models"
	"github.com/XiaoMi/Gaea/parser"
	"github.com/XiaoMi/Gaea/parser/ast"
	"github.com/XiaoMi/Gaea/parser/opcode"
	driver "github.com/XiaoMi/Gaea/parser/tidb-types/parser_driver"
	"github.com/XiaoMi/Gaea/proxy/plan"
	"github.com/XiaoMi/Gaea/proxy/router"
	"github.com/XiaoMi/Gaea/proxy/sequence"
)

// C04 — statements that involve only global tables (proxy/plan, proxy/router).
//
// Line: (g04 (ns SLICE…) (valid DB…) (sess DB) (rules (rule DB TABLE GCFG)…) STMT)
//   GCFG  (gcfg DB (locations…) (slices…) (databases expanded…) (databases as configured…))
//   STMT  (stmt select|update|delete|insert SQLHEX (fields F…) (from TREF…) (cols COL…) (rows (row E…)…)
//               (sets (set COL E)…) (ondup (set COL E)…) (where E|-) (group BY…) (having E|-) (order BY…))
//         the tree the repository's parser produced for SQLHEX, reduced to the node kinds the
//         planner distinguishes (g04Tree); grammar in lean/GaeaVerif/Drv/C04.lean
// Exec builds a fresh router from (ns, rules), plans SQLHEX from a session whose current
// database is DB and reports, per produced statement, slice, database and the chains of
// back-quoted identifiers of the SQL text; `(unshard)` when BuildPlan answers with an unshard
// plan. A SELECT is planned repeatedly (the copy is chosen with math/rand) and the distinct
// statements are reported. The router's rules are rendered before and after the plannings:
// `(router-state-changed …)` when they differ.

const g04DB = "db_g"
const g04OtherDB = "db_o"

type g04Cfg struct {
	db        string
	locations []int
	slices    []string
	dbsRaw    []string // as configured
	dbs       []string // expanded (nil: implicit)
}

func (c *g04Cfg) sexp() core.Sexp {
	return core.L(core.A("gcfg"), core.A(c.db), core.Ints(c.locations), insIdents(c.slices), insIdents(c.dbs), insIdents(c.dbsRaw))
}

func g04CfgFromSexp(s core.Sexp) *g04Cfg {
	c := &g04Cfg{db: s.Nth(1).Atom}
	for _, x := range s.Nth(2).List {
		c.locations = append(c.locations, int(x.Int()))
	}
	for _, x := range s.Nth(3).List {
		c.slices = append(c.slices, x.Atom)
	}
	for _, x := range s.Nth(5).List {
		c.dbsRaw = append(c.dbsRaw, x.Atom)
	}
	return c
}

func (c *g04Cfg) copies() int {
	n := 0
	for _, l := range c.locations {
		if l > 0 {
			n += l
		}
	}
	return n
}

func (c *g04Cfg) json(table string) string {
	loc, _ := json.Marshal(c.locations)
	sl, _ := json.Marshal(c.slices)
	s := fmt.Sprintf(`{"db":"%s","table":"%s","type":"global","locations":%s,"slices":%s`, c.db, table, loc, sl)
	if len(c.dbsRaw) > 0 {
		d, _ := json.Marshal(c.dbsRaw)
		s += `,"databases":` + string(d)
	}
	return s + "}"
}

type g04Rule struct {
	db, table string
	cfg       *g04Cfg
}

func g04RulesSexp(rules []g04Rule) core.Sexp {
	out := []core.Sexp{core.A("rules")}
	for _, r := range rules {
		out = append(out, core.L(core.A("rule"), core.A(r.db), core.A(r.table), r.cfg.sexp()))
	}
	return core.L(out...)
}

// g04NewRouter builds the router of a namespace with the given slices and global rules.
// Every Exec gets a router of its own, so that a case is a pure function of its line.
func g04NewRouter(ns []string, rules []g04Rule) (*router.Router, error) {
	log.SetGlobalLogger(nullLogger{})
	var shards []string
	for _, r := range rules {
		shards = append(shards, r.cfg.json(r.table))
	}
	nsJSON := `{"name":"ns_g04","online":true,"allowed_dbs":{"db_g":true,"db_o":true},"default_phy_dbs":{"db_g":"db_g","db_o":"db_o"},
"slices":[` + insSliceJSON(ns...) + `],"shard_rules":[` + strings.Join(shards, ",") + `],
"users":[{"user_name":"u","password":"p","namespace":"ns_g04","rw_flag":2,"rw_split":1}],"default_slice":"` + ns[0] + `"}`
	m := &models.Namespace{}
	if err := json.Unmarshal([]byte(nsJSON), m); err != nil {
		return nil, err
	}
	return router.NewRouter(m)
}

// g04Snapshot renders everything of the router's rules that planning can reach
// through the Rule interface; planning must leave it unchanged.
func g04Snapshot(rt *router.Router) string {
	var parts []string
	for db, rules := range rt.GetAllRules() {
		for tbl, r := range rules {
			var dbs []string
			if mr, ok := r.(router.MycatRule); ok {
				dbs = append(dbs, mr.GetDatabases()...)
			}
			line := fmt.Sprintf("%s.%s|%s|%v|%d|%d|%v|%v", db, tbl, r.GetType(), r.GetSubTableIndexes(),
				r.GetFirstTableIndex(), r.GetLastTableIndex(), r.GetSlices(), dbs)
			for i := 0; i < len(r.GetSubTableIndexes()); i++ {
				d, _ := r.GetDatabaseNameByTableIndex(i)
				line += fmt.Sprintf("|%d>%d,%s", i, r.GetSliceIndexFromTableIndex(i), d)
			}
			parts = append(parts, line)
		}
	}
	d := rt.GetDefaultRule()
	parts = append(parts, fmt.Sprintf("default|%s|%v|%v", d.GetType(), d.GetSubTableIndexes(), d.GetSlices()))
	sort.Strings(parts)
	return strings.Join(parts, "\n")
}

// ---- translator: the parser's tree, reduced to the node kinds of Model/GlobalTree.lean ----

var g04V = core.A("v")

// g04Node nests the children of a node the planner only traverses to the right
func g04Node(children []ast.ExprNode) core.Sexp {
	switch len(children) {
	case 0:
		return g04V
	case 1:
		return core.L(core.A("node"), g04Expr(children[0]), g04V)
	}
	out := g04Expr(children[len(children)-1])
	for i := len(children) - 2; i >= 0; i-- {
		out = core.L(core.A("node"), g04Expr(children[i]), out)
	}
	return out
}

func g04ColName(head string, n *ast.ColumnName) core.Sexp {
	return core.L(core.A(head), insIdent(n.Schema.O), insIdent(n.Table.O), insIdent(n.Name.O))
}

func g04Expr(e ast.ExprNode) core.Sexp {
	switch x := e.(type) {
	case *ast.ColumnNameExpr:
		return g04ColName("col", x.Name)
	case *driver.ValueExpr:
		return g04V
	case *ast.BinaryOperationExpr:
		head := "binop"
		switch x.Op {
		case opcode.LogicAnd, opcode.LogicOr:
			head = "logic"
		case opcode.EQ, opcode.NE, opcode.GT, opcode.GE, opcode.LT, opcode.LE:
			head = "cmp"
		}
		return core.L(core.A(head), g04Expr(x.L), g04Expr(x.R))
	case *ast.PatternInExpr:
		if x.Sel != nil {
			panic("c04: sub query in IN")
		}
		return core.L(core.A("in"), g04Expr(x.Expr), g04Node(x.List))
	case *ast.BetweenExpr:
		return core.L(core.A("between"), g04Expr(x.Expr), g04Expr(x.Left), g04Expr(x.Right))
	case *ast.ParenthesesExpr:
		return core.L(core.A("paren"), g04Expr(x.Expr))
	case *ast.FuncCallExpr:
		if x.FnName.L == "database" {
			panic("c04: DATABASE() hint")
		}
		return g04Node(x.Args)
	case *ast.AggregateFuncExpr:
		return g04Node(x.Args)
	case *ast.IsNullExpr:
		return g04Node([]ast.ExprNode{x.Expr})
	case *ast.IsTruthExpr:
		return g04Node([]ast.ExprNode{x.Expr})
	case *ast.PatternLikeExpr:
		return g04Node([]ast.ExprNode{x.Expr, x.Pattern})
	case *ast.UnaryOperationExpr:
		return g04Node([]ast.ExprNode{x.V})
	case *ast.ValuesExpr:
		return g04Node([]ast.ExprNode{x.Column})
	case *ast.RowExpr:
		return g04Node(x.Values)
	case *ast.CaseExpr:
		var cs []ast.ExprNode
		if x.Value != nil {
			cs = append(cs, x.Value)
		}
		for _, w := range x.WhenClauses {
			cs = append(cs, w.Expr, w.Result)
		}
		if x.ElseClause != nil {
			cs = append(cs, x.ElseClause)
		}
		return g04Node(cs)
	}
	panic(fmt.Sprintf("c04: node %T is not part of the model", e))
}

func g04OptExpr(e ast.ExprNode) core.Sexp {
	if e == nil {
		return core.A("-")
	}
	return g04Expr(e)
}

func g04Join(j *ast.Join, out *[]core.Sexp) {
	tref := func(rs ast.ResultSetNode, on *ast.OnCondition) {
		ts, ok := rs.(*ast.TableSource)
		if !ok {
			panic(fmt.Sprintf("c04: table reference %T", rs))
		}
		tn, ok := ts.Source.(*ast.TableName)
		if !ok {
			panic(fmt.Sprintf("c04: table source %T", ts.Source))
		}
		var onExpr ast.ExprNode
		if on != nil {
			onExpr = on.Expr
		}
		*out = append(*out, core.L(core.A("tref"), insIdent(tn.Schema.O), insIdent(tn.Name.O), insIdent(ts.AsName.O), g04OptExpr(onExpr)))
	}
	switch l := j.Left.(type) {
	case *ast.Join:
		g04Join(l, out)
	default:
		tref(l, nil)
	}
	if j.Right != nil {
		tref(j.Right, j.On)
	}
}

func g04ByItems(items []*ast.ByItem) []core.Sexp {
	var out []core.Sexp
	for _, it := range items {
		switch x := it.Expr.(type) {
		case *ast.ColumnNameExpr:
			out = append(out, g04ColName("bcol", x.Name))
		case *ast.AggregateFuncExpr:
			out = append(out, core.L(core.A("bagg"), g04Expr(x)))
		case *driver.ValueExpr, *ast.PositionExpr:
			out = append(out, core.A("blit"))
		default:
			out = append(out, core.A("bother"))
		}
	}
	return out
}

func g04Assignments(as []*ast.Assignment) []core.Sexp {
	var out []core.Sexp
	for _, a := range as {
		out = append(out, core.L(core.A("set"), g04ColName("c", a.Column), g04Expr(a.Expr)))
	}
	return out
}

// g04SingleTargetDelete: DELETE tbl FROM tbl … (the multiple-table syntax naming its only table, in the
// same database, without alias), which the planner turns into DELETE FROM tbl … (simplifySingleTargetDelete);
// the model sees the single-table form. Other target lists are not modelled.
func g04SingleTargetDelete(s *ast.DeleteStmt, sess string) bool {
	if s.Tables == nil || len(s.Tables.Tables) != 1 {
		return false
	}
	j := s.TableRefs.TableRefs
	ts, ok := j.Left.(*ast.TableSource)
	if !ok || j.Right != nil || ts.AsName.L != "" {
		return false
	}
	tn, ok := ts.Source.(*ast.TableName)
	if !ok {
		return false
	}
	db := func(n *ast.TableName) string {
		if n.Schema.L != "" {
			return n.Schema.L
		}
		return sess
	}
	target := s.Tables.Tables[0]
	return target.Name.L == tn.Name.L && db(target) == db(tn)
}

// g04Tree is the STMT form of a parsed statement (planned from a session on database sess).
func g04Tree(sql string, node ast.StmtNode, sess string) core.Sexp {
	sec := func(head string, xs []core.Sexp) core.Sexp {
		return core.L(append([]core.Sexp{core.A(head)}, xs...)...)
	}
	var kind string
	var fields, from, cols, rows, sets, ondup, group, order []core.Sexp
	where, having := core.A("-"), core.A("-")
	switch s := node.(type) {
	case *ast.SelectStmt:
		kind = "select"
		for _, f := range s.Fields.Fields {
			switch {
			case f.WildCard != nil && f.WildCard.Table.O == "" && f.WildCard.Schema.O == "":
				fields = append(fields, core.A("star"))
			case f.WildCard != nil:
				fields = append(fields, core.L(core.A("wild"), insIdent(f.WildCard.Schema.O), insIdent(f.WildCard.Table.O)))
			default:
				if f.AsName.O != "" {
					panic("c04: field alias")
				}
				fields = append(fields, core.L(core.A("fx"), g04Expr(f.Expr)))
			}
		}
		g04Join(s.From.TableRefs, &from)
		where = g04OptExpr(s.Where)
		if s.GroupBy != nil {
			group = g04ByItems(s.GroupBy.Items)
		}
		if s.Having != nil {
			having = g04Expr(s.Having.Expr)
		}
		if s.OrderBy != nil {
			order = g04ByItems(s.OrderBy.Items)
		}
	case *ast.UpdateStmt:
		kind = "update"
		g04Join(s.TableRefs.TableRefs, &from)
		sets = g04Assignments(s.List)
		where = g04OptExpr(s.Where)
		if s.Order != nil {
			order = g04ByItems(s.Order.Items)
		}
	case *ast.DeleteStmt:
		kind = "delete"
		if s.IsMultiTable && !g04SingleTargetDelete(s, sess) {
			panic("c04: multi-table DELETE")
		}
		g04Join(s.TableRefs.TableRefs, &from)
		where = g04OptExpr(s.Where)
		if s.Order != nil {
			order = g04ByItems(s.Order.Items)
		}
	case *ast.InsertStmt:
		kind = "insert"
		if s.Select != nil {
			panic("c04: INSERT … SELECT")
		}
		g04Join(s.Table.TableRefs, &from)
		for _, c := range s.Columns {
			cols = append(cols, g04ColName("c", c))
		}
		for _, row := range s.Lists {
			r := []core.Sexp{core.A("row")}
			for _, e := range row {
				r = append(r, g04Expr(e))
			}
			rows = append(rows, core.L(r...))
		}
		sets = g04Assignments(s.Setlist)
		ondup = g04Assignments(s.OnDuplicate)
	default:
		panic(fmt.Sprintf("c04: statement %T", node))
	}
	return core.L(core.A("stmt"), core.A(kind), core.Text(sql), sec("fields", fields), sec("from", from), sec("cols", cols),
		sec("rows", rows), sec("sets", sets), sec("ondup", ondup), core.L(core.A("where"), where), sec("group", group),
		core.L(core.A("having"), having), sec("order", order))
}

// g04Line builds the input line of one statement; ok = false when the statement does not parse
// or has a shape the model does not represent (a join nested to the right, a sub query, …).
func g04Line(ns []string, sess string, rules []g04Rule, sql string) (line core.Sexp, ok bool) {
	node, err := parser.ParseSQL(sql)
	if err != nil {
		return core.Sexp{}, false
	}
	defer func() {
		if e := recover(); e != nil {
			if msg, isStr := e.(string); !isStr || !strings.HasPrefix(msg, "c04: ") {
				panic(e)
			}
			line, ok = core.Sexp{}, false
		}
	}()
	return core.L(core.A("g04"),
		core.L(append([]core.Sexp{core.A("ns")}, insIdents(ns).List...)...),
		core.L(core.A("valid"), core.A(g04DB), core.A(g04OtherDB)),
		core.L(core.A("sess"), insIdent(sess)),
		g04RulesSexp(rules),
		g04Tree(sql, node, sess)), true
}

// ---- statement generator: SQL text; the tree comes from the parser ----

type g04Ref struct {
	db, table, alias string
}

type g04Builder struct {
	g       *core.Gen
	sess    string
	refs    []g04Ref
	badLeft int // unresolvable qualifiers still to place
	tags    map[string]bool
}

var g04Cols = []string{"id", "a", "b", "c"}

func (b *g04Builder) otherDB(db string) string {
	if db == g04DB {
		return g04OtherDB
	}
	return g04DB
}

// qualifier renders the `[db.]table.` part of a column of a random table reference.
func (b *g04Builder) qualifier(what string) string {
	g := b.g
	r := core.Pick(g, b.refs)
	tq := r.table
	if r.alias != "" && g.Intn(3) != 0 {
		tq = r.alias
	}
	if b.badLeft > 0 && g.Intn(3) == 0 {
		b.badLeft--
		b.tags["bad-qualifier@"+what] = true
		switch g.Intn(3) {
		case 0:
			return "`zz`."
		case 1:
			return "`" + r.db + "`.`zz`."
		default:
			return "`nodb`.`" + tq + "`."
		}
	}
	switch g.Intn(10) {
	case 0, 1, 2:
		return ""
	case 3, 4, 5:
		return "`" + tq + "`."
	case 6:
		b.tags["schema@"+what] = true
		return "`" + b.otherDB(r.db) + "`.`" + tq + "`." // another logical database the router knows
	default:
		b.tags["schema@"+what] = true
		return "`" + r.db + "`.`" + tq + "`."
	}
}

func (b *g04Builder) col(what string) string {
	return b.qualifier(what) + "`" + core.Pick(b.g, g04Cols) + "`"
}

func (b *g04Builder) lit() string {
	return core.Pick(b.g, []string{"1", "2", "17", "'x'", "0", "'db_g'", "3.5", "NULL"})
}

// operand renders a value expression.
func (b *g04Builder) operand(what string, depth int) string {
	g := b.g
	k := g.Intn(20)
	if depth <= 0 && k >= 14 {
		k = g.Intn(14)
	}
	switch {
	case k < 9:
		return b.col(what)
	case k < 14:
		return b.lit()
	case k < 16:
		fn := core.Pick(g, []string{"ABS", "LOWER", "COALESCE", "IFNULL"})
		if fn == "COALESCE" || fn == "IFNULL" {
			return fn + "(" + b.operand(what, depth-1) + ", " + b.operand(what, depth-1) + ")"
		}
		return fn + "(" + b.operand(what, depth-1) + ")"
	case k < 18:
		return b.operand(what, depth-1) + core.Pick(g, []string{"+", "-", "*", " DIV ", " & "}) + b.operand(what, depth-1)
	case k < 19:
		return "(" + b.operand(what, depth-1) + ")"
	default:
		return "-" + b.col(what)
	}
}

// cond renders a condition.
func (b *g04Builder) cond(what string, depth int) string {
	g := b.g
	k := g.Intn(100)
	if depth <= 0 && (k >= 30 && k < 55) {
		k = g.Intn(30)
	}
	not := func() string {
		if g.Intn(3) == 0 {
			return "NOT "
		}
		return ""
	}
	switch {
	case k < 30:
		b.tags["cond=compare"] = true
		return b.operand(what, 1) + " " + core.Pick(g, []string{"=", "!=", "<", "<=", ">", ">="}) + " " + b.operand(what, 1)
	case k < 45:
		b.tags["cond=and-or"] = true
		return b.cond(what, depth-1) + " " + core.Pick(g, []string{"AND", "OR"}) + " " + b.cond(what, depth-1)
	case k < 52:
		b.tags["cond=parentheses"] = true
		return "(" + b.cond(what, depth-1) + ")"
	case k < 55:
		b.tags["cond=not"] = true
		return "NOT (" + b.cond(what, depth-1) + ")"
	case k < 65:
		b.tags["cond=in"] = true
		n := 1 + g.Intn(3)
		var items []string
		for i := 0; i < n; i++ {
			if g.Intn(3) == 0 {
				items = append(items, b.operand(what, 1))
			} else {
				items = append(items, b.lit())
			}
		}
		return b.operand(what, 1) + " " + not() + "IN (" + strings.Join(items, ",") + ")"
	case k < 73:
		b.tags["cond=between"] = true
		bound := func() string {
			if g.Intn(3) == 0 {
				return b.operand(what, 1)
			}
			return b.lit()
		}
		return b.operand(what, 1) + " " + not() + "BETWEEN " + bound() + " AND " + bound()
	case k < 78:
		b.tags["cond=like"] = true
		return b.operand(what, 1) + " " + not() + "LIKE 'x%'"
	case k < 83:
		b.tags["cond=is-null"] = true
		return b.operand(what, 1) + " IS " + not() + "NULL"
	case k < 90:
		b.tags["cond=other-operator"] = true
		switch g.Intn(4) {
		case 0:
			return b.operand(what, 1) + " <=> " + b.operand(what, 1)
		case 1:
			return "(" + b.cond(what, 0) + ") XOR (" + b.cond(what, 0) + ")"
		case 2:
			return "(" + b.operand(what, 1) + "+1)*2"
		default:
			return b.operand(what, 1) + " & " + b.operand(what, 1)
		}
	case k < 95:
		b.tags["cond=column"] = true
		return b.col(what)
	case k < 97:
		return b.lit()
	default:
		b.tags["cond=function"] = true
		return "ISNULL(" + b.operand(what, 1) + ")"
	}
}

func (b *g04Builder) where() string {
	if b.g.Intn(4) == 0 {
		return ""
	}
	return " WHERE " + b.cond("where", 2)
}

// tableRef renders a table reference; a table of another database than the session's is named
// with its schema (unless `bare`, which then names a table without a rule).
func (b *g04Builder) tableRef(r g04Ref, bare bool) string {
	s := "`" + r.table + "`"
	if !bare && (r.db != b.sess || b.g.Intn(2) == 0) {
		s = "`" + r.db + "`." + s
		b.tags["schema@table"] = true
	}
	if r.alias != "" {
		s += " AS `" + r.alias + "`"
	}
	return s
}

func (b *g04Builder) byItems(kw string) string {
	g := b.g
	n := 1
	if g.Intn(4) == 0 {
		n = 2
	}
	var items []string
	for i := 0; i < n; i++ {
		k := g.Intn(20)
		var it string
		switch {
		case k < 14:
			it = b.col("by-item")
		case k < 17:
			b.tags["by=aggregate"] = true
			it = core.Pick(g, []string{"MAX", "MIN", "SUM", "COUNT"}) + "(" + b.operand("by-item-aggregate", 1) + ")"
		case k < 18:
			b.tags["by=literal"] = true
			it = core.Pick(g, []string{"1", "NULL", "2"})
		default:
			b.tags["by=other"] = true
			it = core.Pick(g, []string{"ABS(" + b.col("by-item") + ")", b.col("by-item") + "+1"})
		}
		if kw == "ORDER BY" && g.Intn(4) == 0 {
			it += " DESC"
		}
		items = append(items, it)
	}
	return " " + kw + " " + strings.Join(items, ", ")
}

// g04Stmt renders one statement over the tables `tables` (all of one logical database).
func g04Stmt(g *core.Gen, kind, sess string, tables []g04Ref, bad int) (sql string, tags []string) {
	b := &g04Builder{g: g, sess: sess, badLeft: bad, tags: map[string]bool{}}
	bare := sess != tables[0].db && g.Intn(12) == 0 // names (session db).table, which has no rule
	if bare {
		b.tags["table-unqualified-under-another-session"] = true
	}
	switch kind {
	case "select":
		n := 1
		switch g.Intn(6) {
		case 0, 1:
			n = 2
		case 2:
			n = 3
		}
		if n > len(tables) {
			n = len(tables)
		}
		for k := 0; k < n; k++ {
			r := tables[k]
			if k == 2 || g.Intn(3) == 0 {
				r.alias = fmt.Sprintf("x%d", k)
			}
			b.refs = append(b.refs, r)
		}
		var fs []string
		if g.Intn(4) == 0 {
			fs = append(fs, "*")
		}
		for i := g.Intn(3); i >= 0 && (len(fs) == 0 || i > 0); i-- {
			switch g.Intn(10) {
			case 0:
				fs = append(fs, core.Pick(g, []string{"COUNT", "MAX", "MIN", "SUM"})+"("+b.operand("select-field", 1)+")")
			case 1:
				fs = append(fs, b.operand("select-field", 1)+"+1")
			case 2, 3:
				q := b.qualifier("wildcard-field")
				if q == "" {
					q = "`" + b.refs[0].table + "`."
					if b.refs[0].alias != "" {
						q = "`" + b.refs[0].alias + "`."
					}
				}
				fs = append(fs, q+"*")
				b.tags["field=wildcard"] = true
			case 4:
				fs = append(fs, "CASE WHEN "+b.cond("select-field", 0)+" THEN "+b.operand("select-field", 0)+" ELSE 0 END")
			default:
				fs = append(fs, b.col("select-field"))
			}
		}
		sql = "SELECT " + strings.Join(fs, ",") + " FROM " + b.tableRef(b.refs[0], bare)
		for k := 1; k < n; k++ {
			switch g.Intn(8) {
			case 0:
				sql += ", " + b.tableRef(b.refs[k], bare)
			case 1:
				sql += " JOIN " + b.tableRef(b.refs[k], bare)
			default:
				// only the tables joined so far may be named in the ON condition
				all := b.refs
				b.refs = all[:k+1]
				sql += " " + core.Pick(g, []string{"JOIN", "LEFT JOIN", "INNER JOIN"}) + " " + b.tableRef(all[k], bare) + " ON " + b.cond("on", 1)
				b.refs = all
			}
		}
		sql += b.where()
		if g.Intn(5) == 0 {
			sql += b.byItems("GROUP BY")
			b.tags["groupby"] = true
			if g.Intn(3) == 0 {
				sql += " HAVING " + b.cond("having", 1)
				b.tags["having"] = true
			}
		}
		if g.Intn(3) == 0 {
			sql += b.byItems("ORDER BY")
			b.tags["orderby"] = true
		}
		if g.Intn(5) == 0 {
			sql += " LIMIT " + strconv.Itoa(1+g.Intn(9))
		}
	case "update":
		r := tables[0]
		if g.Intn(3) == 0 {
			r.alias = "x0"
		}
		b.refs = []g04Ref{r}
		sql = "UPDATE " + b.tableRef(r, bare) + " SET "
		var as []string
		for i := 0; i < 1+g.Intn(2); i++ {
			l := b.col("set-column")
			if g.Intn(3) == 0 {
				as = append(as, l+" = "+b.operand("update-set-value", 2))
			} else {
				as = append(as, l+" = "+b.lit())
			}
		}
		sql += strings.Join(as, ", ") + b.where()
		if g.Intn(4) == 0 {
			sql += b.byItems("ORDER BY")
			b.tags["orderby"] = true
		}
		if g.Intn(5) == 0 {
			sql += " LIMIT 3"
		}
	case "delete":
		b.refs = []g04Ref{tables[0]}
		if !bare && g.Intn(8) == 0 {
			// the multiple-table syntax naming its only table: neither ORDER BY nor LIMIT
			b.tags["delete=target-list"] = true
			sql = "DELETE " + b.tableRef(tables[0], false) + " FROM " + b.tableRef(tables[0], false) + b.where()
			break
		}
		sql = "DELETE FROM " + b.tableRef(tables[0], bare) + b.where()
		if g.Intn(4) == 0 {
			sql += b.byItems("ORDER BY")
			b.tags["orderby"] = true
		}
		if g.Intn(5) == 0 {
			sql += " LIMIT 3"
		}
	case "insert":
		b.refs = []g04Ref{tables[0]}
		verb := core.Pick(g, []string{"INSERT INTO", "INSERT INTO", "REPLACE INTO", "INSERT IGNORE INTO"})
		b.badLeft = 0 // the names of an INSERT are not looked up
		value := func() string {
			if g.Intn(4) == 0 {
				b.tags["insert-value=expression"] = true
				return b.operand("insert-value", 1)
			}
			return b.lit()
		}
		ncol := 1 + g.Intn(3)
		var cs, vs []string
		for i := 0; i < ncol; i++ {
			cs = append(cs, b.col("insert-column"))
			vs = append(vs, value())
		}
		s0 := b.tableRef(tables[0], bare)
		if g.Intn(4) == 0 {
			var as []string
			for i := range cs {
				as = append(as, cs[i]+" = "+vs[i])
			}
			sql = verb + " " + s0 + " SET " + strings.Join(as, ", ")
			b.tags["insert=set-form"] = true
		} else {
			rows := "(" + strings.Join(vs, ",") + ")"
			if g.Intn(2) == 0 {
				var v2 []string
				for range vs {
					v2 = append(v2, value())
				}
				if g.Intn(15) == 0 {
					v2 = v2[1:]
					b.tags["insert=ragged-row"] = true
				}
				rows += ",(" + strings.Join(v2, ",") + ")"
			}
			colList := " (" + strings.Join(cs, ",") + ")"
			if g.Intn(20) == 0 {
				colList = ""
				b.tags["insert=no-column-list"] = true
			}
			sql = verb + " " + s0 + colList + " VALUES " + rows
		}
		if !strings.HasPrefix(verb, "REPLACE") && g.Intn(4) == 0 {
			c := b.col("insert-column")
			v := core.Pick(g, []string{"5", b.operand("insert-value", 1), "VALUES(" + b.col("insert-value") + ")"})
			sql += " ON DUPLICATE KEY UPDATE " + c + " = " + v
			b.tags["insert=on-duplicate"] = true
		}
	}
	for t := range b.tags {
		tags = append(tags, t)
	}
	sort.Strings(tags)
	return
}

func g04GenCfg(g *core.Gen, ns []string, db string, allowBroken bool) (*g04Cfg, string) {
	c := &g04Cfg{db: db}
	k := 1 + g.Intn(len(ns))
	if k > 3 {
		k = 3
	}
	perm := g.Rand.Perm(len(ns))
	if g.Intn(3) == 0 { // namespace order
		sort.Ints(perm)
	}
	total := 0
	for i := 0; i < k; i++ {
		c.slices = append(c.slices, ns[perm[i]])
		l := core.Pick(g, []int{1, 1, 2, 2, 3, 0, 1, 2})
		c.locations = append(c.locations, l)
		total += l
	}
	shape := "implicit-dbs"
	switch g.Intn(6) {
	case 0, 1:
		if total >= 2 {
			shape = "range-dbs"
			c.dbsRaw = []string{fmt.Sprintf("%s_[0-%d]", db, total-1)}
		}
	case 2:
		if total >= 1 {
			shape = "listed-dbs"
			for i := 0; i < total; i++ {
				c.dbsRaw = append(c.dbsRaw, fmt.Sprintf("%s_p%d", db, i))
			}
			if g.Intn(3) == 0 {
				c.dbsRaw[g.Intn(total)] = db // one copy lives in a database named like the logical one
			}
		}
	case 3:
		if total >= 3 {
			shape = "mixed-dbs"
			c.dbsRaw = []string{db + "_first", fmt.Sprintf("%s_[1-%d]", db, total-1)}
		}
	}
	if allowBroken && g.Intn(40) == 0 { // count mismatch: the router must refuse the namespace
		shape = "dbs-count-mismatch"
		c.dbsRaw = []string{"db_q0", "db_q1", "db_q2", "db_q3", "db_q4", "db_q5", "db_q6", "db_q7", "db_q8", "db_q9"}
	}
	if allowBroken && g.Intn(60) == 0 {
		shape = "locations-count-mismatch"
		c.locations = append(c.locations, 1)
	}
	if len(c.dbsRaw) > 0 {
		dbs, err := router.GetRealDatabases(c.dbsRaw)
		if err != nil {
			panic(err)
		}
		c.dbs = dbs
	}
	return c, shape
}

func genC04(g *core.Gen) {
	n := g.Scale(3000, 30000)
	all := []string{"slice-0", "slice-1", "slice-2", "slice-3"}
	unparsable := 0
	for i := 0; i < n; i++ {
		nsN := 1 + g.Intn(4)
		perm := g.Rand.Perm(4)
		var ns []string
		for _, p := range perm[:nsN] {
			ns = append(ns, all[p])
		}
		if g.Intn(2) == 0 {
			sort.Strings(ns)
		}
		cfg, shape := g04GenCfg(g, ns, g04DB, true)
		cfgO, _ := g04GenCfg(g, ns, g04OtherDB, false)
		for cfgO.copies() == 0 { // the third table must not make the router refuse the namespace
			cfgO, _ = g04GenCfg(g, ns, g04OtherDB, false)
		}
		rules := []g04Rule{{g04DB, "ga", cfg}, {g04DB, "gb", cfg}, {g04OtherDB, "oz", cfgO}}
		// the tables of the statement: db_g.ga, db_g.gb, db_g.ga again (same layout), or db_o.oz alone
		tables := []g04Ref{{g04DB, "ga", ""}, {g04DB, "gb", ""}, {g04DB, "ga", ""}}
		used := cfg
		if g.Intn(8) == 0 {
			tables = []g04Ref{{g04OtherDB, "oz", ""}}
			used = cfgO
			shape = "other-database-table"
		}
		// the session's current database: the table's, the other logical one, or none
		sess := tables[0].db
		switch g.Intn(8) {
		case 0, 1:
			sess = g04DB
			if tables[0].db == g04DB {
				sess = g04OtherDB
			}
		case 2:
			sess = ""
		}
		kind := core.Pick(g, []string{"select", "select", "select", "update", "delete", "insert"})
		bad := 0
		if g.Intn(20) == 0 {
			bad = 1
		}
		sql, tags := g04Stmt(g, kind, sess, tables, bad)
		in, ok := g04Line(ns, sess, rules, sql)
		if !ok {
			unparsable++
			if unparsable > n/20+5 {
				panic("c04: too many generated statements do not parse, e.g. " + sql)
			}
			continue
		}
		sameOrder := "rule-slices=prefix-of-namespace"
		for j, s := range used.slices {
			if j >= len(ns) || ns[j] != s {
				sameOrder = "rule-slices=other-order-or-subset"
			}
		}
		total := 0
		for _, l := range used.locations {
			total += l
		}
		sessTag := "session=table-database"
		switch {
		case sess == "":
			sessTag = "session=none"
		case sess != tables[0].db:
			sessTag = "session=another-database"
		}
		tags = append(tags, "stmt="+kind, "layout="+shape, sameOrder, fmt.Sprintf("copies=%d", total), sessTag)
		g.Emit(in, tags...)
	}
}

// g04Chains extracts the chains of back-quoted identifiers of a SQL text.
func g04Chains(sql string) string {
	var chains []string
	i := 0
	for i < len(sql) {
		switch sql[i] {
		case '\'':
			i++
			for i < len(sql) {
				if sql[i] == '\\' {
					i += 2
					continue
				}
				if sql[i] == '\'' {
					if i+1 < len(sql) && sql[i+1] == '\'' {
						i += 2
						continue
					}
					break
				}
				i++
			}
			i++
		case '`':
			var chain []string
			for {
				j := strings.IndexByte(sql[i+1:], '`')
				if j < 0 {
					return "(unterminated)"
				}
				chain = append(chain, insIdent(sql[i+1:i+1+j]).String())
				i = i + 1 + j + 1
				if i+1 < len(sql) && sql[i] == '.' && sql[i+1] == '`' {
					i++
					continue
				}
				if i+1 < len(sql) && sql[i] == '.' && sql[i+1] == '*' {
					chain = append(chain, "*")
					i += 2
				}
				break
			}
			chains = append(chains, "("+strings.Join(chain, " ")+")")
		default:
			i++
		}
	}
	return "(" + strings.Join(chains, " ") + ")"
}

func execC04(in core.Sexp) string {
	var ns []string
	for _, x := range in.Nth(1).List[1:] {
		ns = append(ns, x.Atom)
	}
	sess := in.Nth(3).Nth(1).Atom
	if sess == "-" {
		sess = ""
	}
	var rules []g04Rule
	copies := 0
	for _, x := range in.Nth(4).List[1:] {
		r := g04Rule{db: x.Nth(1).Atom, table: x.Nth(2).Atom, cfg: g04CfgFromSexp(x.Nth(3))}
		rules = append(rules, r)
		n := 0
		for _, l := range r.cfg.locations {
			if l > 0 {
				n += l
			}
		}
		if n > copies {
			copies = n
		}
	}
	rt, err := g04NewRouter(ns, rules)
	if err != nil {
		return "err"
	}
	before := g04Snapshot(rt)
	out := g04Run(rt, sess, in.Nth(5).Nth(1).Atom, in.Nth(5).Nth(2).Str(), copies)
	if g04Snapshot(rt) != before {
		return "(router-state-changed " + out + ")"
	}
	return out
}

// g04Run plans the statement (a SELECT repeatedly) and renders what was produced; a panic of the
// planner is the outcome "panic" (and the router is still compared by the caller).
func g04Run(rt *router.Router, sess, kind, sql string, copies int) (out string) {
	defer func() {
		if e := recover(); e != nil {
			out = "panic"
		}
	}()
	phy := map[string]string{"db_g": "db_g", "db_o": "db_o"}
	ps := parser.New()
	planOnce := func() (entries []string, unshard bool, err error) {
		node, err := ps.ParseOneStmt(sql, "", "")
		if err != nil {
			return nil, false, fmt.Errorf("parse")
		}
		p, err := plan.BuildPlan(node, phy, sess, sql, rt, sequence.NewSequenceManager(), nil)
		if err != nil {
			return nil, false, err
		}
		if _, ok := p.(*plan.UnshardPlan); ok {
			return nil, true, nil
		}
		m := plan.VerifPlanSQLs(p)
		if m == nil {
			return nil, false, fmt.Errorf("not a shard plan: %T", p)
		}
		for slice, dbs := range m {
			for db, sqls := range dbs {
				for _, q := range sqls {
					entries = append(entries, "("+insIdent(slice).String()+" "+insIdent(db).String()+" "+g04Chains(q)+")")
				}
			}
		}
		sort.Strings(entries)
		return entries, false, nil
	}
	if kind != "select" {
		entries, unshard, err := planOnce()
		if err != nil {
			return "err"
		}
		if unshard {
			return "(unshard)"
		}
		if len(entries) == 0 {
			return "(ok)"
		}
		return "(ok " + strings.Join(entries, " ") + ")"
	}
	// reads: the copy is picked with math/rand; plan often enough to see every copy
	tries := 16*copies + 16
	seen := map[string]bool{}
	most := 0
	for t := 0; t < tries; t++ {
		entries, unshard, err := planOnce()
		if err != nil {
			return "err"
		}
		if unshard {
			return "(unshard)"
		}
		if len(entries) > most {
			most = len(entries)
		}
		for _, e := range entries {
			seen[e] = true
		}
	}
	var all []string
	for e := range seen {
		all = append(all, e)
	}
	sort.Strings(all)
	out = "(read " + strconv.Itoa(most)
	for _, e := range all {
		out += " " + e
	}
	return out + ")"
}

func init() {
	core.Register(&core.Property{
		ID: "C04",
		Rule: "namespaces of 1–4 slices in any order; a global-table rule (shared by db_g.ga and db_g.gb) on 1–3 of them (same order as the namespace, another order, or a subset), 0–3 copies per slice, physical databases implicit, `db_g_[0-n]`, listed, mixed, or one named like the logical database; a third global table db_o.oz with a layout of its own; router-refused layouts (count mismatches); " +
			"sessions whose current database is the table's, the other logical database (tables then named with their schema; a few left unqualified, naming a table without a rule) or none; " +
			"statements over one global table (SELECT, UPDATE, DELETE, INSERT/REPLACE in VALUES and SET form, ON DUPLICATE KEY, ragged rows, no column list) or a join of up to three references (JOIN/LEFT JOIN … ON, comma join, self join under an alias), tables and columns bare / table- / alias- / schema-qualified (also with the other known logical database), " +
			"random expression trees: comparisons of columns, literals, function calls, arithmetic and parentheses on either side, AND/OR/NOT/parentheses, IN and BETWEEN with columns and expressions on the left and among the values/bounds, LIKE, IS NULL, <=>, XOR, arithmetic and bare columns as conditions, CASE in the field list; wildcard fields; GROUP BY/ORDER BY columns, aggregate functions, literals and unsupported items; HAVING; LIMIT; SET values and INSERT values with column references; one unresolvable qualifier in some statements; " +
			"the statement's tree is taken from the repository's parser; a SELECT is planned 16·copies+16 times and the set of distinct statements compared with the model's set over every pick; the router's rules are rendered before and after every case; non-trivial = statement accepted",
		Generate: genC04,
		Exec:     execC04,
		Trivial: func(in core.Sexp, out string) bool {
			return !strings.HasPrefix(out, "(ok") && !strings.HasPrefix(out, "(read")
		},
		Assumptions: []string{
			"global tables joined in one statement have the same layout (the planner takes the layout of whichever the map iteration yields first; the code comments require the configurations to agree)",
			"a copy of a global table is identified by (slice, physical database); `databases` lists are expanded by router.GetRealDatabases (its parsing is C10)",
			"math/rand reaches every copy within 16·copies+16 plannings of a SELECT (probability of a miss < 1e-7 per case)",
			"a planner panic is recovered by SessionExecutor.handleQuery and reaches the client as an error: the oracle treats it as a rejection",
			"column and table names of the generated statements are lower-case (handleExtraFieldList compares lower-cased names)",
			"the reduction of the parser's tree to the node kinds of Model/GlobalTree.lean (g04Tree: which Go node type is which constructor, children in the order Restore prints them) is hand-written; a wrong reduction shows as a broken correspondence on the unchanged tree",
		},
		ShrinkKeep: []string{"stmt"},
	})
}
