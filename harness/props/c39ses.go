package props

import (
	"fmt"
	"io"
	"net"
	"os"
	"sort"
	"strings"
	"sync"
	"time"

	"gaeaverif/harness/core"

	"github.com/XiaoMi/Gaea/backend"
	"github.com/XiaoMi/Gaea/mysql"
	"github.com/XiaoMi/Gaea/proxy/server"
)

// C39, whole sessions: the real Session.Run reads commands from an in-memory client connection and
// answers them through the planner, the executor, the real connection pools and DirectConnections
// over scripted backends (c39.go), for statements in and outside transactions, with and without
// keep-session, with statement time-outs, multi-result answers, the binary protocol, a client that
// stops reading in the middle of an answer, and sharded statements entering above the planner.
//
//	(ses (cfg MAXROWS EXECMS KS [MULTI]) STMT…)   MULTI: support_multi_query + CLIENT_MULTI_STATEMENTS
//	    | (mq CUT ((RESULT…) …))     one COM_QUERY text of several statements, each with its own answer
//	                                 (only with MULTI: the proxy splits the text and answers every
//	                                 statement, SERVER_MORE_RESULTS_EXISTS on all but the last)
//	STMT: (begin) | (commit) | (rollback)
//	    | (un BIN CUT (RESULT…))     SELECT /*c39*/ id, pad FROM t   (CALL /*c39*/ pad() for several results),
//	                                 COM_QUERY or (BIN) COM_STMT_EXECUTE; CUT = -1, or the client takes CUT
//	                                 packets of the answer and then its connection breaks (every write fails)
//	    | (sq CUT (TBL TBL TBL TBL)) SELECT id, pad FROM tbl_ks [WHERE id IN (…)] over the sub-tables with a script
//	                                 (TBL = - | RESULT; tables 0,1 on slice-0, tables 2,3 on slice-1)
//	RESULT: okp | (ITEM…)   ITEM: (r N L) | (eof) | (err) | (stall); first ITEM may be (errp) / (stall0):
//	                                 an ERR packet / silence instead of the result-set header
//
// Row ids run through all results of a statement, in the order the proxy asks for them.

var (
	c39Srv    *server.Server
	c39SrvErr error
)

func c39Server(m *server.Manager) (*server.Server, error) {
	if c39Srv == nil && c39SrvErr == nil {
		c39Srv, c39SrvErr = server.VerifC39NewServer(m)
	}
	return c39Srv, c39SrvErr
}

// c39Pipe is the client's end as the proxy sees it: commands come from the harness, one at a
// time; what the proxy writes is collected. A Read with no command waiting tells the harness
// that the previous command has been answered.
type c39Pipe struct {
	mu       sync.Mutex
	in       []byte
	out      []byte
	idle     chan struct{} // one token per Read that found nothing to read
	cmd      chan []byte   // next command packet (closed: the client went away)
	closed   bool
	respAt   int // offset in out where the answer to the current command starts
	failFrom int // -1, or: the client takes failFrom packets of the current answer, then every write fails
	failed   bool
	pkts     int // packets of the current answer taken so far
	hdr      [4]byte
	hdrN     int
	need     int
	full     bool
}

func newC39Pipe() *c39Pipe {
	return &c39Pipe{idle: make(chan struct{}, 1), cmd: make(chan []byte), failFrom: -1}
}

func (c *c39Pipe) Read(p []byte) (int, error) {
	c.mu.Lock()
	if c.closed {
		c.mu.Unlock()
		return 0, io.ErrClosedPipe
	}
	if len(c.in) == 0 {
		c.mu.Unlock()
		select {
		case c.idle <- struct{}{}:
		default:
		}
		b, ok := <-c.cmd
		if !ok {
			return 0, io.EOF
		}
		c.mu.Lock()
		c.in = b
	}
	n := copy(p, c.in)
	c.in = c.in[n:]
	c.mu.Unlock()
	return n, nil
}

func (c *c39Pipe) Write(p []byte) (int, error) {
	c.mu.Lock()
	defer c.mu.Unlock()
	if c.closed {
		return 0, io.ErrClosedPipe
	}
	if c.failFrom < 0 {
		c.out = append(c.out, p...)
		return len(p), nil
	}
	// the client takes failFrom packets of the answer, then its connection breaks
	i := 0
	for i < len(p) {
		if c.failed || c.pkts >= c.failFrom {
			c.failed = true
			c.out = append(c.out, p[:i]...)
			return i, io.ErrClosedPipe
		}
		if c.hdrN < 4 {
			c.hdr[c.hdrN] = p[i]
			c.hdrN++
			i++
			if c.hdrN == 4 {
				c.need = int(c.hdr[0]) | int(c.hdr[1])<<8 | int(c.hdr[2])<<16
				c.full = c.need == mysql.MaxPacketSize
				if c.need == 0 {
					c.hdrN = 0
					c.pkts++
				}
			}
			continue
		}
		take := c.need
		if take > len(p)-i {
			take = len(p) - i
		}
		c.need -= take
		i += take
		if c.need == 0 {
			c.hdrN = 0
			if !c.full {
				c.pkts++
			}
		}
	}
	c.out = append(c.out, p...)
	return len(p), nil
}

func (c *c39Pipe) Close() error {
	c.mu.Lock()
	c.closed = true
	c.mu.Unlock()
	return nil
}
func (c *c39Pipe) LocalAddr() net.Addr                { return c11Addr{} }
func (c *c39Pipe) RemoteAddr() net.Addr               { return c11Addr{} }
func (c *c39Pipe) SetDeadline(t time.Time) error      { return nil }
func (c *c39Pipe) SetReadDeadline(t time.Time) error  { return nil }
func (c *c39Pipe) SetWriteDeadline(t time.Time) error { return nil }

// c39SliceSim is one slice of the namespace: a real pool over scripted backends that answer the
// scripted statements from one queue.
type c39SliceSim struct {
	c39Slice
	mu    sync.Mutex
	queue []*c39Response
}

func (sl *c39SliceSim) next(q string) *c39Response {
	sl.mu.Lock()
	defer sl.mu.Unlock()
	if len(sl.queue) == 0 {
		return nil
	}
	r := sl.queue[0]
	sl.queue = sl.queue[1:]
	return r
}

func c39ParseResult(s core.Sexp) c39Result {
	if s.IsAtom {
		if s.Atom == "okp" {
			return c39Result{okp: true}
		}
		panic("c39: bad result " + s.String())
	}
	var items []c39Item
	for _, it := range s.List {
		switch it.Head() {
		case "r":
			items = append(items, c39Item{"r", int(it.Nth(1).Int()), int(it.Nth(2).Int())})
		case "eof", "err", "stall", "errp", "stall0":
			items = append(items, c39Item{kind: it.Head()})
		default:
			panic("c39: bad item " + it.String())
		}
	}
	return c39Result{items: items}
}

func c39ResultRows(r c39Result) int {
	n := 0
	for _, it := range r.items {
		if it.kind == "r" {
			n += it.n
		}
	}
	return n
}

func c39Packet(cmd byte, payload string) []byte {
	l := 1 + len(payload)
	b := []byte{byte(l), byte(l >> 8), byte(l >> 16), 0, cmd}
	return append(b, payload...)
}

// c39SesView reads the packets a client received in answer to one statement.
// kind: "ok" (begin/commit/rollback/prepare) or "rs" (a statement with results).
func c39SesView(out []byte, binary bool, pads func(id int) int) string {
	var pk [][]byte
	seq := uint8(1)
	seqOK := true
	var cur []byte
	pos := 0
	for pos+4 <= len(out) {
		l := int(out[pos]) | int(out[pos+1])<<8 | int(out[pos+2])<<16
		if pos+4+l > len(out) {
			break // the client's connection broke inside this packet
		}
		if out[pos+3] != seq {
			seqOK = false
		}
		seq++
		if l == mysql.MaxPacketSize || cur != nil {
			cur = append(cur, out[pos+4:pos+4+l]...)
			if l < mysql.MaxPacketSize {
				pk = append(pk, cur)
				cur = nil
			}
		} else {
			pk = append(pk, out[pos+4:pos+4+l])
		}
		pos += 4 + l
	}
	var parts []string
	bytesOK := true
	fin := "cut"
	i := 0
	for i < len(pk) {
		p := pk[i]
		if len(p) == 0 {
			return "(client-stream-garbled)"
		}
		if p[0] == mysql.ErrHeader {
			if os.Getenv("VERIF_DEBUG_LOG") != "" {
				fmt.Fprintln(os.Stderr, "client ERR:", string(p[3:]))
			}
			fin = "(err " + c39ErrKind(string(p)) + ")"
			i++
			break
		}
		if p[0] == mysql.OKHeader {
			// OK packet: header, affected rows, insert id, status
			more := len(p) >= 5 && (uint16(p[3])|uint16(p[4])<<8)&mysql.ServerMoreResultsExists != 0
			i++
			if more {
				parts = append(parts, "(okpm)")
				continue
			}
			parts = append(parts, "(okp)")
			fin = "done"
			break
		}
		// a result set: column count, definitions, EOF
		ncol := 0
		if len(p) == 1 {
			ncol = int(p[0])
		}
		i += 1 + ncol
		if ncol == 0 {
			return "(client-header-garbled)"
		}
		if i >= len(pk) {
			parts = append(parts, "(rs () -)")
			break
		}
		if len(pk[i]) == 0 || pk[i][0] != mysql.EOFHeader {
			return "(client-header-garbled)"
		}
		i++
		rows := &c39Ranges{}
		end := "-"
		for ; i < len(pk); i++ {
			p := pk[i]
			if len(p) > 0 && p[0] == mysql.EOFHeader && len(p) < 9 {
				end = "eof"
				if len(p) >= 5 && (uint16(p[3])|uint16(p[4])<<8)&mysql.ServerMoreResultsExists != 0 {
					end = "eofm"
				}
				i++
				break
			}
			if len(p) > 0 && p[0] == mysql.ErrHeader {
				break
			}
			id := c39RowID(p, binary)
			rows.add(id)
			if !binary {
				if l := pads(id); l < 0 || !c39RowEquals(p, id, l) {
					if bytesOK && os.Getenv("VERIF_DEBUG_LOG") != "" {
						n := len(p)
						if n > 24 {
							n = 24
						}
						fmt.Fprintf(os.Stderr, "row %d differs: pad %d len %d % x\n", id, l, len(p), p[:n])
						want := c39Row(id, l)
						for k := range want {
							if k >= len(p) || p[k] != want[k] {
								fmt.Fprintf(os.Stderr, "first difference at %d: % x vs % x\n", k, p[k:k+8], want[k:k+8])
								break
							}
						}
					}
					bytesOK = false
				}
			}
		}
		parts = append(parts, fmt.Sprintf("(rs %s %s)", rows.String(), end))
		if end == "eof" {
			fin = "done"
			break
		}
		if end == "-" {
			if i < len(pk) && len(pk[i]) > 0 && pk[i][0] == mysql.ErrHeader {
				fin = "(err " + c39ErrKind(string(pk[i])) + ")"
				i++
			}
			break
		}
	}
	if i < len(pk) {
		if os.Getenv("VERIF_DEBUG_LOG") != "" {
			for k, p := range pk {
				n := len(p)
				if n > 12 {
					n = 12
				}
				fmt.Fprintf(os.Stderr, "pk %d len %d % x\n", k, len(p), p[:n])
			}
			fmt.Fprintln(os.Stderr, "stopped at", i, parts)
		}
		return "(client-packets-after-end)"
	}
	flags := "ok"
	if !bytesOK {
		flags = "row-bytes-differ"
	} else if !seqOK {
		flags = "client-sequence"
	}
	return fmt.Sprintf("(%s) %s %s", strings.Join(parts, " "), fin, flags)
}

func execC39Ses(m *server.Manager, in core.Sexp) string {
	srv, err := c39Server(m)
	if err != nil {
		return "(setup-failed " + core.Text(err.Error()).String() + ")"
	}
	cfg := in.Nth(1)
	maxRows := int(cfg.Nth(1).Int())
	execMs := int(cfg.Nth(2).Int())
	ks := cfg.Nth(3).Bool()
	multi := len(cfg.List) > 4 && cfg.Nth(4).Bool()
	stmts := in.List[2:]
	server.VerifC39SetMaxResultSize(m, c39NS, maxRows)
	server.VerifC39SetMaxExecuteTime(m, c39NS, execMs)
	defer server.VerifC39SetMaxExecuteTime(m, c39NS, 0)

	sls := make([]*c39SliceSim, 2)
	for i := range sls {
		sl := &c39SliceSim{}
		sl.pool = backend.VerifC39NewPoolN(fmt.Sprintf("mem-%d", i), 1, func() net.Conn {
			b := &c39Backend{next: sl.next}
			sl.backends = append(sl.backends, b)
			return b
		}, func(dc *backend.DirectConnection) {
			sl.dcs = append(sl.dcs, dc)
			sl.backends[len(sl.backends)-1].dc = dc
		})
		sls[i] = sl
		server.VerifC39SetMaster(m, c39NS, fmt.Sprintf("slice-%d", i), sl.pool)
	}

	pipe := newC39Pipe()
	sess := server.VerifC39NewRunSession(srv, pipe, c39NS, "c39", "db_ks", ks)
	server.VerifC39SetMultiStatements(sess, m, c39NS, multi)
	defer server.VerifC39SetMultiStatements(sess, m, c39NS, false)
	done := make(chan struct{})
	go func() {
		defer close(done)
		sess.Run()
	}()
	// wait until the session asks for the next command (true) or has ended (false)
	wait := func() (bool, bool) {
		select {
		case <-pipe.idle:
			return true, true
		case <-done:
			return false, true
		case <-time.After(20 * time.Second):
			return false, false
		}
	}
	send := func(pkt []byte, cut int) {
		pipe.mu.Lock()
		pipe.respAt = len(pipe.out)
		pipe.failFrom = cut
		pipe.failed = false
		pipe.pkts, pipe.hdrN, pipe.need = 0, 0, 0
		pipe.mu.Unlock()
		pipe.cmd <- pkt
	}
	answer := func() []byte {
		pipe.mu.Lock()
		defer pipe.mu.Unlock()
		return append([]byte{}, pipe.out[pipe.respAt:]...)
	}

	var outs []string
	hang := false
	alive, ok := wait()
	if !ok {
		hang = true
	}
	for _, st := range stmts {
		if !alive || hang {
			break
		}
		binary := false
		cut := -1
		var pkt []byte
		var pads []c39Item // all scripted row runs of the statement, in id order
		for _, sl := range sls {
			sl.mu.Lock()
			sl.queue = nil
			sl.mu.Unlock()
		}
		switch st.Head() {
		case "begin", "commit", "rollback":
			pkt = c39Packet(mysql.ComQuery, st.Head())
		case "un":
			binary = st.Nth(1).Bool()
			cut = int(st.Nth(2).Int())
			rsp := &c39Response{}
			for k, r := range st.Nth(3).List {
				res := c39ParseResult(r)
				res.more = k < len(st.Nth(3).List)-1
				rsp.results = append(rsp.results, res)
				pads = append(pads, res.items...)
			}
			sls[0].queue = []*c39Response{rsp}
			sql := "SELECT /*c39*/ id, pad FROM t"
			if len(rsp.results) > 1 {
				sql = "SELECT /*c39*/ id, pad FROM t; SELECT /*c39*/ id, pad FROM t"
			}
			if binary {
				// prepare (not part of the reported answers), then execute: statement id, no cursor, iteration count 1
				send(c39Packet(mysql.ComStmtPrepare, sql), -1)
				if alive, ok = wait(); !ok || !alive {
					hang = !ok
					break
				}
				var stmtID [4]byte
				if a := answer(); len(a) >= 9 && a[4] == mysql.OKHeader {
					copy(stmtID[:], a[5:9])
				}
				pkt = c39Packet(mysql.ComStmtExecute, string(stmtID[:])+string([]byte{0, 1, 0, 0, 0}))
			} else {
				pkt = c39Packet(mysql.ComQuery, sql)
			}
		case "mq":
			// one COM_QUERY text of several statements, split by the proxy (doMultiStmts): each
			// statement gets its own answer from slice-0's backend
			cut = int(st.Nth(1).Int())
			base := 0
			var texts []string
			for _, a := range st.Nth(2).List {
				rsp := &c39Response{base: base}
				for k, r := range a.List {
					res := c39ParseResult(r)
					res.more = k < len(a.List)-1
					rsp.results = append(rsp.results, res)
					pads = append(pads, res.items...)
					base += c39ResultRows(res)
				}
				sls[0].queue = append(sls[0].queue, rsp)
				texts = append(texts, "SELECT /*c39*/ id, pad FROM t")
			}
			pkt = c39Packet(mysql.ComQuery, strings.Join(texts, "; "))
		case "sq":
			cut = int(st.Nth(1).Int())
			var ids []string
			base := 0
			for t, tb := range st.Nth(2).List {
				if tb.IsAtom {
					continue
				}
				res := c39ParseResult(tb)
				ids = append(ids, fmt.Sprint(t))
				sls[t/2].queue = append(sls[t/2].queue, &c39Response{results: []c39Result{res}, base: base})
				base += c39ResultRows(res)
				pads = append(pads, res.items...)
			}
			sql := "SELECT id, pad FROM tbl_ks"
			if len(ids) < 4 {
				sql += " WHERE id IN (" + strings.Join(ids, ", ") + ")"
			}
			pkt = c39Packet(mysql.ComQuery, sql)
		default:
			panic("c39: bad statement " + st.String())
		}
		if hang || !alive {
			break
		}
		send(pkt, cut)
		alive, ok = wait()
		if !ok {
			hang = true
			outs = append(outs, "(st hang)")
			break
		}
		state := "open"
		if !alive {
			state = "closed"
		}
		view := c39SesView(answer(), binary, func(id int) int { return c39PadOf(pads, id) })
		outs = append(outs, fmt.Sprintf("(st %s %s)", view, state))
	}
	if !hang {
		if alive {
			close(pipe.cmd)
		}
		select {
		case <-done:
		case <-time.After(20 * time.Second):
			hang = true
		}
	}
	if hang {
		// release whatever still blocks and leave the rest to the runner
		for _, sl := range sls {
			for _, b := range sl.backends {
				b.Close()
			}
		}
		pipe.Close()
		return "(" + strings.Join(append(outs, "(hang)"), " ") + ")"
	}
	// let the goroutines a time-out left behind finish
	var conns []string
	desync := 0
	for _, sl := range sls {
		var fs []string
		for k, b := range sl.backends {
			b.mu.Lock()
			closed, starved, d := b.closed, b.starved, b.desync
			b.mu.Unlock()
			if d > desync {
				desync = d
			}
			switch {
			case closed:
				fs = append(fs, "closed")
			case starved:
				fs = append(fs, "starved")
			default:
				b.mu.Lock()
				n := b.unreadLocked()
				b.mu.Unlock()
				_ = k
				fs = append(fs, fmt.Sprintf("(pooled %d)", n))
			}
		}
		if sl.pool.InUse() > 0 {
			fs = append(fs, "leaked")
		}
		conns = append(conns, "("+strings.Join(fs, " ")+")")
	}
	outs = append(outs, fmt.Sprintf("(conns %s)", strings.Join(conns, " ")), fmt.Sprintf("(desync %d)", desync))
	return "(" + strings.Join(outs, " ") + ")"
}

// ---- generator ----

// c39SesResult is one generated result (a RESULT form) with what the generator knows about it.
type c39SesResult struct {
	sexp    core.Sexp
	rows    int
	packets int  // packets the proxy writes for it when it is delivered in full
	last    bool // ends the answer (ERR packet, lost connection): nothing may follow it
}

// c39GenSmallResult draws a small result set; pinned: the connection it comes over is pinned by a
// transaction or keep-session (no lost connection then, see Model/ResultSession.lean).
func c39GenSmallResult(g *core.Gen, pinned bool) c39SesResult {
	var items []core.Sexp
	rows := 0
	k := g.Intn(3)
	for i := 0; i <= k; i++ {
		n := g.Intn(5)
		if g.Intn(8) == 0 {
			n = 5 + g.Intn(30)
		}
		l := core.Pick(g, []int{0, 1, 5, 250, 251, 300, 70000})
		if g.Intn(2) == 0 {
			l = g.Intn(400)
		}
		items = append(items, c39R(n, l))
		rows += n
	}
	switch x := g.Intn(20); {
	case x == 0:
		return c39SesResult{sexp: core.L(core.L(core.A("errp"))), packets: 1, last: true}
	case x <= 2:
		items = append(items, c39ERR)
		return c39SesResult{sexp: core.L(items...), rows: rows, packets: 4 + rows + 1, last: true}
	case x == 3 && !pinned:
		// connection lost
		return c39SesResult{sexp: core.L(items...), rows: rows, packets: 4 + rows + 1, last: true}
	}
	items = append(items, c39EOF)
	return c39SesResult{sexp: core.L(items...), rows: rows, packets: 4 + rows + 1}
}

// c39GenBigResult: a complete result of exactly `chunks` reader chunks, the last of them short.
func c39GenBigResult(g *core.Gen, chunks int) c39SesResult {
	const T = mysql.MaxPayloadLen
	l := core.Pick(g, []int{1000000, 1400000})
	perChunk := T/c39RowSize(l) + 1
	n := (chunks-1)*perChunk + 1 + g.Intn(2)
	return c39SesResult{sexp: core.L(c39R(n, l), c39EOF), rows: n, packets: 4 + n + 1}
}

func c39Cfg(maxRows, execMs int, ks bool) core.Sexp {
	return core.L(core.A("cfg"), core.I(int64(maxRows)), core.I(int64(execMs)), core.B(ks))
}

// c39CfgMulti: a session whose multi-statement packets the proxy splits.
func c39CfgMulti(maxRows, execMs int, ks bool) core.Sexp {
	return core.L(core.A("cfg"), core.I(int64(maxRows)), core.I(int64(execMs)), core.B(ks), core.B(true))
}

// c39Mq is one COM_QUERY text of several statements, one result each.
func c39Mq(cut int, results ...c39SesResult) core.Sexp {
	var as []core.Sexp
	for _, r := range results {
		as = append(as, core.L(r.sexp))
	}
	return core.L(core.A("mq"), core.I(int64(cut)), core.L(as...))
}

func c39Un(bin bool, cut int, results ...c39SesResult) core.Sexp {
	var rs []core.Sexp
	for _, r := range results {
		rs = append(rs, r.sexp)
	}
	return core.L(core.A("un"), core.B(bin), core.I(int64(cut)), core.L(rs...))
}

func c39Sq(cut int, tbls [4]*c39SesResult) core.Sexp {
	var ts []core.Sexp
	for _, t := range tbls {
		if t == nil {
			ts = append(ts, core.A("-"))
		} else {
			ts = append(ts, t.sexp)
		}
	}
	return core.L(core.A("sq"), core.I(int64(cut)), core.L(ts...))
}

var c39OKP = c39SesResult{sexp: core.A("okp"), packets: 1}

func c39Small(n int) c39SesResult {
	return c39SesResult{sexp: core.L(c39R(n, 5), c39EOF), rows: n, packets: 4 + n + 1}
}

func genC39Ses(g *core.Gen) {
	begin, commit, rollback := core.L(core.A("begin")), core.L(core.A("commit")), core.L(core.A("rollback"))
	ses := func(cfg core.Sexp, stmts []core.Sexp, tags ...string) {
		g.Emit(core.L(append([]core.Sexp{core.A("ses"), cfg}, stmts...)...), append([]string{"ses"}, tags...)...)
	}
	// small sessions
	nSmall := g.Scale(260, 2500)
	for i := 0; i < nSmall; i++ {
		ks := g.Intn(10) < 3
		execMs := 0
		if g.Intn(10) < 3 {
			execMs = 5000 // armed, never reached: nothing stalls in these sessions
		}
		tx := false
		multi := g.Intn(5) == 0
		var stmts []core.Sexp
		var counts []int
		n := 1 + g.Intn(6)
		tags := map[string]bool{}
		for j := 0; j < n; j++ {
			switch x := g.Intn(12); {
			case x == 0:
				stmts = append(stmts, begin)
				tx = true
				tags["ses-tx"] = true
			case x == 1:
				stmts = append(stmts, core.Pick(g, []core.Sexp{commit, commit, rollback}))
				tx = false
			case x <= 8 && multi && g.Intn(2) == 0:
				// a packet of 2-4 statements, split by the proxy
				pinned := ks || tx
				var rs []c39SesResult
				packets := 0
				for q, k := 0, 2+g.Intn(3); q < k; q++ {
					r := c39GenSmallResult(g, pinned)
					if g.Intn(6) == 0 {
						r = c39OKP
					}
					rs = append(rs, r)
					packets += r.packets
					counts = append(counts, r.rows)
				}
				cut := -1
				if g.Intn(6) == 0 {
					cut = g.Intn(packets + 2)
					tags["ses-client-cut"] = true
				}
				stmts = append(stmts, c39Mq(cut, rs...))
				tags["ses-multi-statement"] = true
			case x <= 8:
				pinned := ks || tx
				var rs []c39SesResult
				k := 1
				if g.Intn(4) == 0 && !multi {
					k = 2 + g.Intn(2)
					tags["ses-multi-result"] = true
				}
				packets := 0
				for q := 0; q < k; q++ {
					r := c39GenSmallResult(g, pinned)
					if k > 1 && g.Intn(5) == 0 || k == 1 && g.Intn(25) == 0 {
						r = c39OKP
					}
					rs = append(rs, r)
					packets += r.packets
					counts = append(counts, r.rows)
					if r.last {
						break
					}
				}
				cut := -1
				if g.Intn(7) == 0 {
					cut = g.Intn(packets + 2)
					tags["ses-client-cut"] = true
				}
				bin := g.Intn(3) == 0
				if bin {
					tags["ses-binary"] = true
				}
				stmts = append(stmts, c39Un(bin, cut, rs...))
			default:
				pinned := ks || tx
				var tbls [4]*c39SesResult
				packets := 5
				some := false
				for t := range tbls {
					if g.Intn(2) == 0 {
						r := c39GenSmallResult(g, pinned)
						tbls[t] = &r
						packets += r.rows
						counts = append(counts, r.rows)
						some = true
					}
				}
				if !some {
					r := c39GenSmallResult(g, pinned)
					tbls[g.Intn(4)] = &r
					counts = append(counts, r.rows)
				}
				cut := -1
				if g.Intn(8) == 0 {
					cut = g.Intn(packets + 2)
					tags["ses-client-cut"] = true
				}
				stmts = append(stmts, c39Sq(cut, tbls))
				tags["ses-sharded"] = true
			}
		}
		m := -1
		if len(counts) > 0 && g.Intn(3) != 0 {
			c := core.Pick(g, counts)
			m = core.Pick(g, []int{c - 1, c, c + 1, 1, 2, 1000})
			if m <= 0 {
				m = -1
			}
		}
		if ks {
			tags["ses-keep-session"] = true
		}
		var tl []string
		for t := range tags {
			tl = append(tl, t)
		}
		sort.Strings(tl)
		if multi {
			ses(c39CfgMulti(m, execMs, ks), stmts, tl...)
		} else {
			ses(c39Cfg(m, execMs, ks), stmts, tl...)
		}
	}
	// a backend that falls silent under max_sql_execute_time
	nStall := g.Scale(8, 40)
	for i := 0; i < nStall; i++ {
		ks := g.Intn(4) == 0
		var stmts []core.Sexp
		tx := g.Intn(2) == 0
		if tx {
			stmts = append(stmts, begin)
		}
		if g.Intn(2) == 0 {
			stmts = append(stmts, c39Un(false, -1, c39Small(2)))
		}
		stalled := core.Pick(g, []core.Sexp{
			core.L(core.L(core.A("stall0"))),
			core.L(c39R(1+g.Intn(4), 5), core.L(core.A("stall"))),
			core.L(c39R(3, 5), core.L(core.A("stall"))),
		})
		m := core.Pick(g, []int{-1, -1, 2})
		// keep-session outside a transaction: a connection closed by the time-out of a sharded
		// statement stays pinned (recycleBackendConns returns early) and the next statement on
		// its slice fails - an error, not a truncation; that bookkeeping belongs to C23 and is
		// not in this model, so the stall comes in an unsharded statement there
		if g.Intn(2) == 0 || (ks && !tx) {
			rs := []core.Sexp{stalled}
			if g.Intn(3) == 0 {
				rs = append(rs, c39Small(1).sexp)
			}
			stmts = append(stmts, core.L(core.A("un"), core.B(g.Intn(3) == 0), core.I(-1), core.L(rs...)))
		} else {
			tbls := []core.Sexp{core.A("-"), core.A("-"), core.A("-"), core.A("-")}
			for t := range tbls {
				if g.Intn(2) == 0 {
					tbls[t] = c39Small(g.Intn(3)).sexp
				}
			}
			tbls[g.Intn(4)] = stalled
			stmts = append(stmts, core.L(core.A("sq"), core.I(-1), core.L(tbls...)))
		}
		stmts = append(stmts, c39Un(false, -1, c39Small(1)), commit, c39Un(false, -1, c39Small(2)))
		ses(c39Cfg(m, 150, ks), stmts, "ses-timeout")
	}
	// results of several reader chunks inside sessions; a small statement follows each of them on
	// the same slice, so that packets left behind would be noticed
	after := c39Un(false, -1, c39Small(2))
	big := func(chunks int) c39SesResult { return c39GenBigResult(g, chunks) }
	type bigCase struct {
		tag   string
		build func() (core.Sexp, []core.Sexp)
	}
	cases := []bigCase{
		{"ses-big-tx-limit-between-chunks", func() (core.Sexp, []core.Sexp) {
			r := big(3)
			return c39Cfg(r.rows*2/3, 0, false), []core.Sexp{begin, c39Un(g.Intn(3) == 0, -1, r), after, commit}
		}},
		{"ses-big-ks-limit-between-chunks", func() (core.Sexp, []core.Sexp) {
			r := big(3)
			return c39Cfg(r.rows*2/3, 0, true), []core.Sexp{c39Un(false, -1, r), after}
		}},
		{"ses-big-tx-complete", func() (core.Sexp, []core.Sexp) {
			r := big(2 + g.Intn(2))
			return c39Cfg(core.Pick(g, []int{-1, r.rows}), 5000, g.Intn(2) == 0), []core.Sexp{begin, c39Un(g.Intn(2) == 0, -1, r), after, commit, after}
		}},
		{"ses-big-client-cut", func() (core.Sexp, []core.Sexp) {
			r := big(3)
			cut := 4 + g.Intn(r.rows)
			stmts := []core.Sexp{c39Un(false, cut, r), after}
			if g.Intn(2) == 0 {
				stmts = append([]core.Sexp{begin}, stmts...)
			}
			return c39Cfg(-1, 0, g.Intn(3) == 0), stmts
		}},
		{"ses-big-second-result", func() (core.Sexp, []core.Sexp) {
			r := big(2 + g.Intn(2))
			rs := []c39SesResult{c39Small(3), r}
			if g.Intn(2) == 0 {
				rs = append(rs, c39OKP)
			}
			return c39Cfg(core.Pick(g, []int{-1, r.rows, r.rows - 1}), 0, false), []core.Sexp{c39Un(g.Intn(3) == 0, -1, rs...), after}
		}},
		{"ses-big-first-result", func() (core.Sexp, []core.Sexp) {
			r := big(2)
			return c39Cfg(-1, 0, g.Intn(3) == 0), []core.Sexp{c39Un(g.Intn(3) == 0, -1, r, c39Small(2)), after}
		}},
		{"ses-big-limit-more-results", func() (core.Sexp, []core.Sexp) {
			r := big(2)
			stmts := []core.Sexp{c39Un(false, -1, c39Small(1), r, c39Small(2), c39OKP), after}
			if g.Intn(2) == 0 {
				stmts = append([]core.Sexp{begin}, append(stmts, commit)...)
			}
			return c39Cfg(core.Pick(g, []int{r.rows - 1, r.rows / 2}), 0, false), stmts
		}},
		{"ses-big-multi-statement", func() (core.Sexp, []core.Sexp) {
			// the streamed answer to a statement that is not the last of its packet: delivered with the
			// flag, or (row limit between the chunks) ended by an error that also ends the packet's answer
			r := big(2 + g.Intn(2))
			m := core.Pick(g, []int{-1, -1, r.rows * 2 / 3})
			stmts := []core.Sexp{c39Mq(-1, r, c39Small(2), c39Small(1)), after}
			if g.Intn(2) == 0 {
				stmts = append([]core.Sexp{begin}, stmts...)
			}
			return c39CfgMulti(m, 0, g.Intn(3) == 0), stmts
		}},
		{"ses-big-sharded", func() (core.Sexp, []core.Sexp) {
			r, s1, s2 := big(3), c39Small(2), c39Small(3)
			var tbls [4]*c39SesResult
			tbls[g.Intn(2)] = &r
			tbls[2+g.Intn(2)] = &s1
			if g.Intn(2) == 0 {
				for t := range tbls {
					if tbls[t] == nil {
						tbls[t] = &s2
						break
					}
				}
			}
			stmts := []core.Sexp{c39Sq(-1, tbls), after}
			if g.Intn(2) == 0 {
				stmts = append([]core.Sexp{begin}, append(stmts, commit)...)
			}
			return c39Cfg(core.Pick(g, []int{-1, r.rows, r.rows - 1}), 0, false), stmts
		}},
	}
	// quick tier: the first case and the one with a large second result in every run, three of the
	// others in turn (each costs 35-50 MB of rows); thorough: all of them, three times
	nBig := g.Scale(1, 3)
	skip := map[int]bool{}
	if g.Scale(0, 1) == 0 {
		for len(skip) < 3 {
			if k := 1 + g.Intn(len(cases)-1); k != 4 && cases[k].tag != "ses-big-multi-statement" {
				skip[k] = true
			}
		}
	}
	for k, c := range cases {
		if skip[k] {
			continue
		}
		for i := 0; i < nBig; i++ {
			cfg, stmts := c.build()
			ses(cfg, stmts, "ses-big", c.tag)
		}
	}
	// two sub-tables on one slice, nothing on the other: both results must arrive (in every run)
	a, b := c39Small(2+g.Intn(3)), c39Small(1+g.Intn(3))
	ses(c39Cfg(-1, 0, false), []core.Sexp{c39Sq(-1, [4]*c39SesResult{&a, &b, nil, nil}), c39Sq(-1, [4]*c39SesResult{nil, nil, &b, &a})}, "ses-sharded", "ses-two-tables-one-slice")
}
