package props

import (
	"fmt"
	"math"
	"strings"

	"gaeaverif/harness/core"
)

// C08 — Mycat-compatible rules (mycat_mod, mycat_long, mycat_string,
// mycat_murmur): Rule.FindTableIndex against the Lean model of
// shard_mycat.go / util/murmur.go; the Lean oracle is the Java reference
// (Spec/Mycat.lean).

func init() {
	core.Register(&core.Property{
		ID: "C08",
		Rule: "one case = one parameter set + a batch of keys; parameter sets: 1-16 (and a few larger) databases over 1-3 slices, " +
			"partition count/length lists summing to 1024 (presets of the Mycat tests + random compositions), hash slices with positive, negative, open and out-of-range bounds, " +
			"murmur seeds 0, ±1, int32 extremes and random, bucket counts \"\"(160), 1, 2, 16, 160; keys: int/int64/uint64/string/[]byte carriers of integers around multiples of 1024, " +
			"int64 extremes and random magnitudes, signed/zero-padded/over-long numerals, ASCII, 2- and 3-byte UTF-8, CJK, supplementary-plane characters, empty string; " +
			"malformed stream: non-numeric keys, invalid UTF-8, float keys, parameter sets Mycat rejects; non-trivial = at least one key placed",
		Generate: genC08,
		Exec:     spExec,
		Trivial:  spTrivial,
		Assumptions: []string{
			"Go int is 64 bits",
			"Spec/Mycat.lean is a faithful reading of Mycat 1.6's PartitionByMod/Long/String/MurmurHash and Guava's murmur3_32 hashUnencodedChars (anchored by the placements shard_mycat_test.go copied from Mycat, kept in corpus/C08)",
			"numeric keys are spelled with ASCII digits (Java also accepts other Unicode decimal digits); all murmur weights are 1 (Gaea does not implement weight files)",
			"hash-slice and count/length strings contain no non-ASCII white space",
		},
	})
}

var c08Words = []string{"", "a", "ab", "abc", "hello, world", "?!)_FFSD", "ddda;kjelwr", "gaea", "user_10086", "ORDER-2019-0001", "Zz", "  x ",
	"é", "ñandú", "Привет", "ü", "你", "你好", "你好, 中国", "ab你好", "分片键", "日本語のキー", "한국어",
	"😀", "a😀", "😀a", "a😀b", "😀😀", "𝄞", "\U00010000", "\U0010FFFF", "ab\U0001F600cd", "你😀好", "�", "퟿", "\u0080߿ࠀ￿"}

var c08Alphabet = []rune{'a', 'b', 'z', '0', '9', '-', ' ', 'é', 'я', '你', '好', '￿', '\U0001F600', '\U00010000', '\U0010FFFF'}

func c08RandString(g *core.Gen) string {
	n := g.Intn(9)
	if g.Intn(8) == 0 {
		n = 20 + g.Intn(30)
	}
	var b strings.Builder
	for i := 0; i < n; i++ {
		switch g.Intn(4) {
		case 0:
			b.WriteRune(core.Pick(g, c08Alphabet))
		case 1:
			b.WriteByte(byte(32 + g.Intn(95)))
		case 2:
			b.WriteRune(rune(0x4e00 + g.Intn(0x5000)))
		default:
			if g.Intn(2) == 0 {
				b.WriteRune(rune(0x10000 + g.Intn(0x100000)))
			} else {
				b.WriteRune(rune(0x80 + g.Intn(0x780)))
			}
		}
	}
	return b.String()
}

var c08Bounds = []int64{0, 1, -1, 1023, 1024, 1025, -1023, -1024, -1025, 2048, 256, 512, 768, 1280, math.MaxInt64, math.MinInt64, math.MaxInt64 - 1023, math.MinInt64 + 1024,
	math.MaxInt32, math.MinInt32, 1 << 32, 1 << 53, 10, 100, 16, 17, 15}

func c08StringKeys(g *core.Gen, n int) []core.Sexp {
	var out []core.Sexp
	for i := 0; i < n; i++ {
		var s string
		switch g.Intn(3) {
		case 0:
			s = core.Pick(g, c08Words)
		case 1:
			s = c08RandString(g)
		default:
			s = fmt.Sprint(g.Intn(200) - 100)
		}
		if g.Intn(6) == 0 {
			out = append(out, spKeyB(s))
		} else {
			out = append(out, spKeyS(s))
		}
	}
	return out
}

func c08BadKeys(g *core.Gen, n int) []core.Sexp {
	var out []core.Sexp
	for i := 0; i < n; i++ {
		switch g.Intn(4) {
		case 0:
			out = append(out, spKeyS(core.Pick(g, spBadNumbers)))
		case 1:
			out = append(out, spKeyF())
		case 2: // invalid UTF-8
			b := []byte(core.Pick(g, c08Words))
			bad := [][]byte{{0xff}, {0xc0, 0x80}, {0xe4, 0xbd}, {0xed, 0xa0, 0x80}, {0xf4, 0x90, 0x80, 0x80}, {0x80}, {0xf0, 0x9f, 0x98}, {0xc2}, {0xe0, 0x80, 0x80}, {0xf8, 0x88, 0x80, 0x80, 0x80}}
			pos := g.Intn(len(b) + 1)
			nb := append(append(append([]byte{}, b[:pos]...), core.Pick(g, bad)...), b[pos:]...)
			out = append(out, core.L(core.A("s"), core.Hex(nb)))
		default:
			out = append(out, spKeyB(core.Pick(g, spBadNumbers)))
		}
	}
	return out
}

// c08Partition: count/length strings whose segments sum to 1024, and the number of partitions.
func c08Partition(g *core.Gen) (count, length string, n int) {
	presets := [][3]interface{}{{"1", "1024", 1}, {"2", "512", 2}, {"4", "256", 4}, {"8", "128", 8}, {"16", "64", 16}, {"1,1", "512,512", 2},
		{"1,2", "512,256", 3}, {"1,4", "512,128", 5}, {"1,2,8", "256,128,64", 11}, {"2,2", "256,256", 4}, {"1,1,4", "512,256,64", 6},
		{"64", "16", 64}, {"2,1", "256,512", 3}, {"1, 1", " 512,512", 2}, {"3,1", "341,1", 4}, {"1,1023", "1,1", 1024}}
	if g.Intn(3) == 0 {
		p := core.Pick(g, presets)
		return p[0].(string), p[1].(string), p[2].(int)
	}
	for {
		k := 1 + g.Intn(3)
		cs := make([]int, k)
		ls := make([]int, k)
		total, used := 0, 0
		for i := 0; i < k; i++ {
			cs[i] = 1 + g.Intn(6)
			total += cs[i]
		}
		ok := true
		for i := 0; i < k-1; i++ {
			room := (1024 - used) / cs[i]
			if room < 2 {
				ok = false
				break
			}
			ls[i] = 1 + g.Intn(room-1)
			used += cs[i] * ls[i]
		}
		rest := 1024 - used
		if !ok || rest <= 0 || rest%cs[k-1] != 0 {
			continue
		}
		ls[k-1] = rest / cs[k-1]
		var a, b []string
		for i := 0; i < k; i++ {
			a = append(a, fmt.Sprint(cs[i]))
			b = append(b, fmt.Sprint(ls[i]))
		}
		return strings.Join(a, ","), strings.Join(b, ","), total
	}
}

var c08HashSlices = []string{"2", "1:2", "1:", "-1:", ":-1", ":", "-3:-1", "0", "5", "3:", "-2:", "0:3", ":2", "10", "32", "-4", "1:-1", "100", "-100:", "2:1", "-1:-3", ":0", "0:", "-2:100", "1:1", " 3 ", "+2", "-0:", "4:-4"}

func c08Cfg(g *core.Gen, kind string) (core.Sexp, []string) {
	locs := func(n int) (core.Sexp, core.Sexp) { return core.Ints(spSplitLocs(g, n)), core.I(int64(n)) }
	switch kind {
	case "mycat_mod":
		n := 1 + g.Intn(16)
		if g.Intn(10) == 0 {
			n = core.Pick(g, []int{17, 32, 100, 1000})
		}
		l, d := locs(n)
		return core.L(core.A(kind), l, d), nil
	case "mycat_long":
		c, ln, n := c08Partition(g)
		l, d := locs(n)
		return core.L(core.A(kind), l, d, core.Text(c), core.Text(ln)), nil
	case "mycat_string":
		c, ln, n := c08Partition(g)
		l, d := locs(n)
		hs := core.Pick(g, c08HashSlices)
		if g.Intn(4) == 0 {
			hs = fmt.Sprintf("%d:%d", g.Intn(15)-6, g.Intn(15)-6)
		}
		return core.L(core.A(kind), l, d, core.Text(c), core.Text(ln), core.Text(hs)), []string{"hash-slice " + hs}
	default: // mycat_murmur
		n := 1 + g.Intn(16)
		seed := core.Pick(g, []string{"0", "1", "-1", "2147483647", "-2147483648", "42", "+7"})
		if g.Intn(4) == 0 {
			seed = fmt.Sprint(int32(g.Rand.Uint32()))
		}
		vbt := core.Pick(g, []string{"1", "2", "3", "16", "16", "40"})
		if g.Intn(g.Scale(25, 12)) == 0 {
			vbt = core.Pick(g, []string{"", "160"})
		}
		l, d := locs(n)
		return core.L(core.A("mycat_murmur"), l, d, core.Text(seed), core.Text(vbt)), []string{"vbt " + vbt}
	}
}

// c08BadCfg: parameter sets outside the valid space.
func c08BadCfg(g *core.Gen) core.Sexp {
	one := core.Ints([]int{1})
	two := core.Ints([]int{1, 1})
	switch g.Intn(12) {
	case 0, 1:
		return core.L(core.A("mycat_mod"), two, core.I(3))
	case 2:
		return core.L(core.A("mycat_long"), two, core.I(2), core.Text(core.Pick(g, []string{"1,1", "2", "1,1,1", "a", "", "1,,1"})), core.Text(core.Pick(g, []string{"512,256", "511", "512", "512,512,1", "x", "1024"})))
	case 3, 4:
		return core.L(core.A("mycat_long"), core.Ints([]int{3}), core.I(3), core.Text("1,2"), core.Text(core.Pick(g, []string{"128,512", "128,128", "1024,1024"})))
	case 5:
		return core.L(core.A("mycat_string"), two, core.I(2), core.Text("2"), core.Text("512"), core.Text(core.Pick(g, []string{"", "0:1:2", "a:1", "a", "a:", ":a", "1:a", "1 :2", " 1:2 ", "1: 2", "::", "99999999999999999999", "1.5"})))
	case 6:
		return core.L(core.A("mycat_murmur"), two, core.I(2), core.Text(core.Pick(g, []string{"x", "", "1.0", " 1", "99999999999999999999"})), core.Text("2"))
	case 7:
		return core.L(core.A("mycat_murmur"), two, core.I(2), core.Text("0"), core.Text(core.Pick(g, []string{"0", "-1", "x", " 16"})))
	case 8, 9: // seeds / hash slices outside Java's int
		return core.L(core.A("mycat_murmur"), two, core.I(2), core.Text(core.Pick(g, []string{"4294967296", "2147483648", "-2147483649", "4294967297"})), core.Text("3"))
	case 10:
		return core.L(core.A("mycat_string"), two, core.I(2), core.Text("2"), core.Text("512"), core.Text(core.Pick(g, []string{"4294967296", "-4294967296:", ":2147483648", "4294967297:4294967299"})))
	default:
		return core.L(core.A("mycat_long"), one, core.I(1), core.Text("1"), core.Text(core.Pick(g, []string{"1023", "1025", "1", "2048"})))
	}
}

func genC08(g *core.Gen) {
	kinds := []string{"mycat_mod", "mycat_long", "mycat_string", "mycat_murmur"}
	n := g.Scale(360, 1200)
	for i := 0; i < n; i++ {
		kind := kinds[i%4]
		var cfg core.Sexp
		var tags []string
		if i%10 == 9 {
			cfg = c08BadCfg(g)
			kind = cfg.Head()
			tags = append(tags, "invalid-params")
		} else {
			var t []string
			cfg, t = c08Cfg(g, kind)
			tags = append(tags, t...)
		}
		tags = append(tags, kind)
		var keys []core.Sexp
		switch kind {
		case "mycat_mod", "mycat_long":
			keys = append(keys, spIntKeys(g, c08Bounds, 14)...)
			keys = append(keys, c08BadKeys(g, 3)...)
			keys = append(keys, c08StringKeys(g, 1)...)
		default:
			keys = append(keys, c08StringKeys(g, 12)...)
			keys = append(keys, spIntKeys(g, c08Bounds, 4)...)
			keys = append(keys, c08BadKeys(g, 2)...)
		}
		g.Emit(core.L(core.A("place"), cfg, core.L(keys...)), tags...)
	}
}
