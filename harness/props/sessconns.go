package props

// Shared machinery of C18 / C19 / C23 (connection bookkeeping of a client
// session): a real proxy/server Session, constructed offline, runs its real
// Session.Run loop over a scripted net.Conn; the slices of its namespace hold
// fake connection pools whose connections keep a ledger of every backend call
// and inject the faults scripted by the input.
//
// Input (one line = one client session):
//
//	(sess (cfg KS USER FB) OP…)
//	  KS   t|f   keep-session namespace
//	  USER rw|w|r  read/write-split user, write-only (no split) user, read-only user
//	  FB   t|f   fall back to the master when no replica connection can be had
//	OP = (BODY (ORD…) (FAULT…))
//	  BODY  (q u K) unsharded statement on the default slice   K = r|h|l|w
//	        (q s K S…) sharded statement touching slices S…     (r plain read, h read with master hint,
//	                                                             l locking read, w write)
//	        (show) (fl) (begin) (commit) (rollback) (ac 0|1) (sp N) (rel N) (rbt N)
//	        (ping) (quit) (disc) (nsc)
//	        (nsc with a non-empty ORD goes through Manager.ReloadNamespacePrepare/Commit; with an empty
//	        one the manager is handed a copy of the namespace with the next change index, which is all
//	        a session observes of a reload)
//	  ORD   the order in which Go's map iteration visits slices during this
//	        command (an explicit input of the model; the harness re-runs the
//	        command from a snapshot until the runtime happens to pick it)
//	  FAULT (KIND SLICE MODE): every backend call of that kind on a connection
//	        of that slice fails during this command.
//	        KIND gm gs (pool get master/replica) u (use db) x (statement) s (savepoint statement)
//	             b c r (begin commit rollback) a (set autocommit) y (sync session variables)
//	             p (ping) f (field list) m (fetch more rows) n (read the next result)
//	        MODE e (error), z (error, and the connection is found closed afterwards),
//	             t (x only: no answer until the connection is closed),
//	             more (x only: the result is streamed: more rows pending),
//	             mres (x only: a further result follows - SERVER_MORE_RESULTS_EXISTS, what a stored
//	             procedure call or a multi-statement answers - no rows pending)
//
// Output: one element per command, then the ledger:
//
//	((RESP (s AC INTX (tx (S C)…) (ks (S C)…) CLOSED) EVENT…)… (end (c ID ROLE SLICE CLOSED RETURNS USED-AFTER-RETURN RETURNED-IN-FLIGHT SECOND-OF-ITS-SLICE)…))
//	RESP ok|err|res|none|dead ; EVENT (G ROLE SLICE CONN|e) (KIND CONN ok|e|z|t|more|mres) (Z CONN) (K CONN)

import (
	"bytes"
	"context"
	"encoding/json"
	"fmt"
	"io"
	"net"
	"os"
	"runtime"
	"sort"
	"strconv"
	"strings"
	"sync"
	"sync/atomic"
	"time"

	"gaeaverif/harness/core"

	"github.com/XiaoMi/Gaea/backend"
	"github.com/XiaoMi/Gaea/log"
	"github.com/XiaoMi/Gaea/models"
	"github.com/XiaoMi/Gaea/mysql"
	"github.com/XiaoMi/Gaea/proxy/server"
)

// ---------------------------------------------------------------- logger

type scLogger struct{ killFail int64 }

func (l *scLogger) SetLevel(name, level string) error           { return nil }
func (l *scLogger) Debug(f string, a ...interface{}) error      { return nil }
func (l *scLogger) Trace(f string, a ...interface{}) error      { return nil }
func (l *scLogger) Notice(f string, a ...interface{}) error     { return nil }
func (l *scLogger) Fatal(f string, a ...interface{}) error      { return nil }
func (l *scLogger) Debugx(id, f string, a ...interface{}) error { return nil }
func (l *scLogger) Tracex(id, f string, a ...interface{}) error { return nil }
func (l *scLogger) Noticex(id, f string, a ...interface{}) error {
	return nil
}
func (l *scLogger) Warnx(id, f string, a ...interface{}) error  { return nil }
func (l *scLogger) Fatalx(id, f string, a ...interface{}) error { return nil }
func (l *scLogger) Close()                                      {}
func (l *scLogger) Dropped(i int) uint64                        { return 0 }
func (l *scLogger) Warn(f string, a ...interface{}) error {
	if strings.HasPrefix(f, "failed to kill query") {
		atomic.AddInt64(&l.killFail, 1)
	}
	if os.Getenv("VERIF_DEBUG_LOG") != "" {
		fmt.Fprintf(os.Stderr, "WARN "+f+"\n", a...)
	}
	return nil
}

// ---------------------------------------------------------------- scripted client connection

// scNet is the client side of the session: Session.Run reads commands from it
// and writes responses to it.  A Read with nothing pending tells the driver
// that the session is idle (blocked waiting for the next command).
type scNet struct {
	in      chan []byte
	idle    chan struct{}
	closeCh chan struct{}
	once    sync.Once
	buf     []byte
	mu      sync.Mutex
	out     bytes.Buffer
}

func newScNet() *scNet {
	return &scNet{in: make(chan []byte), idle: make(chan struct{}), closeCh: make(chan struct{})}
}

func (n *scNet) Read(p []byte) (int, error) {
	if len(n.buf) == 0 {
		select {
		case n.idle <- struct{}{}:
		case <-n.closeCh:
			return 0, io.EOF
		}
		select {
		case b, ok := <-n.in:
			if !ok {
				return 0, io.EOF
			}
			n.buf = b
		case <-n.closeCh:
			return 0, io.EOF
		}
	}
	k := copy(p, n.buf)
	n.buf = n.buf[k:]
	return k, nil
}

func (n *scNet) Write(p []byte) (int, error) {
	select {
	case <-n.closeCh:
		return 0, io.ErrClosedPipe
	default:
	}
	n.mu.Lock()
	n.out.Write(p)
	n.mu.Unlock()
	return len(p), nil
}

func (n *scNet) takeOut() []byte {
	n.mu.Lock()
	defer n.mu.Unlock()
	b := append([]byte{}, n.out.Bytes()...)
	n.out.Reset()
	return b
}

func (n *scNet) Close() error                       { n.once.Do(func() { close(n.closeCh) }); return nil }
func (n *scNet) LocalAddr() net.Addr                { return &net.TCPAddr{IP: net.IPv4(127, 0, 0, 1), Port: 2} }
func (n *scNet) RemoteAddr() net.Addr               { return &net.TCPAddr{IP: net.IPv4(127, 0, 0, 1), Port: 1} }
func (n *scNet) SetDeadline(t time.Time) error      { return nil }
func (n *scNet) SetReadDeadline(t time.Time) error  { return nil }
func (n *scNet) SetWriteDeadline(t time.Time) error { return nil }

// ---------------------------------------------------------------- fake backend world

type scEvent struct {
	kind  string // G U X S B C R A0 A1 Y P F M N Z K
	conn  int    // -1 for a failed get
	slice int
	role  string // for G
	res   string // ok e t more
	child bool   // recorded from a goroutine other than the session's
}

func (e scEvent) String() string {
	switch e.kind {
	case "G":
		if e.conn < 0 {
			return fmt.Sprintf("(G %s %d e)", e.role, e.slice)
		}
		return fmt.Sprintf("(G %s %d %d)", e.role, e.slice, e.conn)
	case "Z", "K":
		return fmt.Sprintf("(%s %d)", e.kind, e.conn)
	}
	return fmt.Sprintf("(%s %d %s)", e.kind, e.conn, e.res)
}

type scWorld struct {
	mu       sync.Mutex
	conns    []*scConn
	events   []scEvent
	script   map[string]string // "kind:slice" -> mode
	rank     map[int]int       // slice -> position in the prescribed visiting order
	lastRank map[uint64]int    // call-site signature -> rank of the last slice seen there
	orderBad bool
	firstSeq map[string][]int // early-exit loops: slices in the order they were first reached
	tmoSeen  int              // scripted timeouts reached during this command
	done     chan struct{}
}

type scPool struct {
	w     *scWorld
	slice int
	role  string
	addr  string
}

type scConn struct {
	w        *scWorld
	id       int
	pool     *scPool
	closed   bool
	returns  int
	more     bool
	moreRes  bool // a further result is pending (MoreResultsExist)
	inflight bool // a statement has been sent and its answer not yet read
	uar      bool // used (backend call or close) after it was returned to the pool
	rif      bool // returned to the pool while a statement was in flight
	dup      bool // handed out while another connection of the same slice was out
	unblock  chan struct{}
}

func sliceIndex(name string) int {
	n, _ := strconv.Atoi(strings.TrimPrefix(name, "slice-"))
	return n
}

// touch records that the session's code reached a fake from some call site
// and checks the prescribed map-iteration order: at one call site (whole call
// chain below Session.Run) slices must be visited in the prescribed order.
// It returns whether the caller is a goroutine other than the session's.
func (w *scWorld) touch(slice int) (child bool) {
	var pcs [48]uintptr
	n := runtime.Callers(3, pcs[:])
	main := false
	cat := ""
	isPing := false
	h := uint64(1469598103934665603)
	for i := 0; i < n; i++ {
		info := scPCInfo(pcs[i])
		if i == 0 {
			isPing = info.ping
		}
		h = (h ^ uint64(pcs[i])) * 1099511628211
		if info.anyOrder {
			return false
		}
		if info.run {
			main = true
			break
		}
		switch info.cat {
		case "conns", "held":
			cat = info.cat
		case "pingloop":
			if isPing {
				cat = "held"
			}
		}
	}
	if !main {
		return true
	}
	r, ok := w.rank[slice]
	if !ok {
		r = 1000 + slice
	}
	if last, seen := w.lastRank[h]; seen && r < last {
		w.orderBad = true
	}
	w.lastRank[h] = r
	if cat != "" {
		seen := false
		for _, x := range w.firstSeq[cat] {
			if x == slice {
				seen = true
			}
		}
		if !seen {
			w.firstSeq[cat] = append(w.firstSeq[cat], slice)
		}
	}
	return false
}

// what a program counter of a call chain tells: is it Session.Run (the root
// of the session's goroutine), is it inside one of the loops that stop at the
// first failure, is it the fake's PingWithTimeout
type scPC struct {
	run  bool
	cat  string
	ping bool
	// SessionExecutor.txConnLost only looks at the connections (IsClosed), in
	// any order: no event, no effect of the order
	anyOrder bool
}

var (
	scPCMu    sync.Mutex
	scPCCache = map[uintptr]scPC{}
)

func scPCInfo(pc uintptr) scPC {
	scPCMu.Lock()
	defer scPCMu.Unlock()
	if v, ok := scPCCache[pc]; ok {
		return v
	}
	var v scPC
	frames := runtime.CallersFrames([]uintptr{pc})
	for {
		f, more := frames.Next()
		switch {
		case strings.HasSuffix(f.Function, "(*Session).Run"):
			v.run = true
		case strings.HasSuffix(f.Function, "(*SessionExecutor).getBackendConns"):
			v.cat = "conns"
		case strings.HasSuffix(f.Function, "(*SessionExecutor).handleBegin"):
			v.cat = "held"
		case strings.HasSuffix(f.Function, "(*SessionExecutor).handleKeepSessionPing"):
			v.cat = "pingloop"
		case strings.HasSuffix(f.Function, ".PingWithTimeout"):
			v.ping = true
		case strings.HasSuffix(f.Function, "(*SessionExecutor).txConnLost"):
			v.anyOrder = true
		}
		if !more {
			break
		}
	}
	scPCCache[pc] = v
	return v
}

// prefixOK: a loop that may stop early must have visited a prefix of its
// candidates taken in the prescribed order.
func (w *scWorld) prefixOK(cat string, cands []int) bool {
	sorted := append([]int{}, cands...)
	rk := func(s int) int {
		if r, ok := w.rank[s]; ok {
			return r
		}
		return 1000 + s
	}
	sort.SliceStable(sorted, func(a, b int) bool { return rk(sorted[a]) < rk(sorted[b]) })
	seq := w.firstSeq[cat]
	if len(seq) > len(sorted) {
		return false
	}
	for i, x := range seq {
		if sorted[i] != x {
			return false
		}
	}
	return true
}

func (w *scWorld) fault(kind string, slice int) string {
	return w.script[kind+":"+strconv.Itoa(slice)]
}

// ---- pool

func (p *scPool) Get(ctx context.Context) (backend.PooledConnect, error) {
	w := p.w
	w.mu.Lock()
	defer w.mu.Unlock()
	child := w.touch(p.slice)
	if w.fault("g"+p.role, p.slice) == "e" {
		w.events = append(w.events, scEvent{kind: "G", conn: -1, slice: p.slice, role: p.role, child: child})
		return nil, fmt.Errorf("scripted: no connection")
	}
	c := &scConn{w: w, id: len(w.conns), pool: p, unblock: make(chan struct{})}
	for _, o := range w.conns {
		if o.pool.slice == p.slice && o.returns == 0 {
			c.dup = true
		}
	}
	w.conns = append(w.conns, c)
	w.events = append(w.events, scEvent{kind: "G", conn: c.id, slice: p.slice, role: p.role, child: child})
	return c, nil
}

func (p *scPool) GetCheck(ctx context.Context) (backend.PooledConnect, error) {
	return nil, fmt.Errorf("fake pool: no check connection")
}
func (p *scPool) Put(pc backend.PooledConnect)             {}
func (p *scPool) Open() error                              { return nil }
func (p *scPool) Addr() string                             { return p.addr }
func (p *scPool) Datacenter() string                       { return "" }
func (p *scPool) Close()                                   {}
func (p *scPool) SetCapacity(capacity int) (err error)     { return nil }
func (p *scPool) SetIdleTimeout(idleTimeout time.Duration) {}
func (p *scPool) StatsJSON() string                        { return "{}" }
func (p *scPool) Capacity() int64                          { return 64 }
func (p *scPool) Available() int64                         { return 64 }
func (p *scPool) Active() int64                            { return 0 }
func (p *scPool) InUse() int64                             { return 0 }
func (p *scPool) MaxCap() int64                            { return 64 }
func (p *scPool) WaitCount() int64                         { return 0 }
func (p *scPool) WaitTime() time.Duration                  { return 0 }
func (p *scPool) IdleTimeout() time.Duration               { return time.Hour }
func (p *scPool) IdleClosed() int64                        { return 0 }
func (p *scPool) SetLastChecked()                          {}
func (p *scPool) GetLastChecked() int64                    { return time.Now().Unix() }

// ---- connection

// call records one backend call and returns its outcome: an error on a closed
// connection, else what the script of the current command says.
func (c *scConn) call(kind, fkind string) string {
	w := c.w
	w.mu.Lock()
	defer w.mu.Unlock()
	child := w.touch(c.pool.slice)
	mode := ""
	if fkind != "" {
		mode = w.fault(fkind, c.pool.slice)
	}
	res := "ok"
	switch mode {
	case "e":
		res = "e"
	case "t":
		if fkind == "x" {
			res = "t"
		}
	case "more":
		if fkind == "x" {
			res = "more"
		}
	case "mres":
		if fkind == "x" {
			res = "mres"
		}
	case "z":
		res = "z"
	}
	if kind != "K" && kind != "Z" {
		if c.closed {
			res = "e"
		}
		if c.returns > 0 {
			c.uar = true
		}
	}
	if kind == "Z" && c.returns > 0 {
		c.uar = true
	}
	if res == "t" {
		w.tmoSeen++
		c.inflight = true
	}
	w.events = append(w.events, scEvent{kind: kind, conn: c.id, slice: c.pool.slice, res: res, child: child})
	if res == "z" { // broken pipe, reconnect failed: DirectConnection is left closed
		c.closeLocked()
		return "e"
	}
	return res
}

func (c *scConn) peek() {
	c.w.mu.Lock()
	c.w.touch(c.pool.slice)
	c.w.mu.Unlock()
}

func errIf(res string) error {
	if res == "e" {
		return fmt.Errorf("scripted backend error")
	}
	return nil
}

func (c *scConn) Recycle() {
	c.call("K", "")
	c.w.mu.Lock()
	c.returns++
	if c.inflight {
		c.rif = true
	}
	if c.more || c.moreRes { // pooledConnectImpl.Recycle closes a connection with pending rows or results
		c.closeLocked()
	}
	c.w.mu.Unlock()
}

func (c *scConn) closeLocked() {
	if !c.closed {
		c.closed = true
		c.inflight = false
		close(c.unblock)
	}
}

func (c *scConn) Close() {
	c.call("Z", "")
	c.w.mu.Lock()
	c.closeLocked()
	c.w.mu.Unlock()
}

func (c *scConn) IsClosed() bool {
	c.peek()
	c.w.mu.Lock()
	defer c.w.mu.Unlock()
	return c.closed
}

func (c *scConn) Reconnect() error      { return nil }
func (c *scConn) UseDB(db string) error { return errIf(c.call("U", "u")) }

var scField = &mysql.Field{Name: []byte("id"), Type: mysql.TypeLonglong}

func scResult(sql string, withRows bool) *mysql.Result {
	r := &mysql.Result{Status: mysql.ServerStatusAutocommit}
	lower := strings.ToLower(strings.TrimSpace(sql))
	if strings.HasPrefix(lower, "select") || strings.HasPrefix(lower, "/*") || strings.HasPrefix(lower, "show") {
		rs := &mysql.Resultset{Fields: []*mysql.Field{scField}, FieldNames: map[string]int{"id": 0}}
		if withRows {
			rs.Values = [][]interface{}{{int64(1)}}
			rs.RowDatas = []mysql.RowData{{1, '1'}}
		}
		r.Resultset = rs
	} else {
		r.AffectedRows = 1
	}
	return r
}

func (c *scConn) Execute(sql string, maxRows int) (*mysql.Result, error) {
	lower := strings.ToLower(sql)
	if strings.HasPrefix(lower, "savepoint ") || strings.HasPrefix(lower, "rollback to ") || strings.HasPrefix(lower, "release savepoint ") {
		return scResult(sql, false), errIf(c.call("S", "s"))
	}
	switch c.call("X", "x") {
	case "e":
		return nil, fmt.Errorf("scripted statement error")
	case "t":
		select {
		case <-c.unblock:
		case <-c.w.done:
		}
		return nil, fmt.Errorf("scripted: connection lost while waiting for the answer")
	case "more":
		c.w.mu.Lock()
		c.more = true
		c.w.mu.Unlock()
		return scResult("select", true), nil
	case "mres":
		c.w.mu.Lock()
		c.moreRes = true
		c.w.mu.Unlock()
		r := scResult(sql, true)
		r.Status |= mysql.ServerMoreResultsExists
		return r, nil
	}
	return scResult(sql, true), nil
}

func (c *scConn) ExecuteWithTimeout(sql string, maxRows int, timeout time.Duration) (*mysql.Result, error) {
	return c.Execute(sql, maxRows)
}
func (c *scConn) SetAutoCommit(v uint8) error {
	if v == 0 {
		return errIf(c.call("A0", "a"))
	}
	return errIf(c.call("A1", "a"))
}
func (c *scConn) Begin() error                                { return errIf(c.call("B", "b")) }
func (c *scConn) Commit() error                               { return errIf(c.call("C", "c")) }
func (c *scConn) Rollback() error                             { return errIf(c.call("R", "r")) }
func (c *scConn) Ping() error                                 { return errIf(c.call("P", "p")) }
func (c *scConn) PingWithTimeout(timeout time.Duration) error { return errIf(c.call("P", "p")) }
func (c *scConn) SetCharset(charset string, collation mysql.CollationID) (bool, error) {
	return false, nil
}
func (c *scConn) FieldList(table string, wildcard string) ([]*mysql.Field, error) {
	if err := errIf(c.call("F", "f")); err != nil {
		return nil, err
	}
	return []*mysql.Field{scField}, nil
}
func (c *scConn) GetAddr() string { c.peek(); return c.pool.addr }
func (c *scConn) SetSessionVariables(frontend *mysql.SessionVariables) (bool, error) {
	return false, nil
}
func (c *scConn) SyncSessionVariables(frontend *mysql.SessionVariables) error {
	return errIf(c.call("Y", "y"))
}
func (c *scConn) WriteSetStatement() error { return nil }
func (c *scConn) GetConnectionID() int64 {
	if c.IsClosed() { // pooledConnectImpl dereferences the nil conn of a closed DirectConnection
		panic("fake connection: GetConnectionID on a closed connection")
	}
	return int64(c.id)
}
func (c *scConn) GetReturnTime() time.Time { return time.Time{} }
func (c *scConn) MoreRowsExist() bool {
	c.peek()
	c.w.mu.Lock()
	defer c.w.mu.Unlock()
	return c.more
}
func (c *scConn) MoreResultsExist() bool {
	c.peek()
	c.w.mu.Lock()
	defer c.w.mu.Unlock()
	return c.moreRes
}
func (c *scConn) FetchMoreRows(result *mysql.Result, maxRows int) error {
	if err := errIf(c.call("M", "m")); err != nil {
		return err
	}
	c.w.mu.Lock()
	c.more = false
	c.w.mu.Unlock()
	result.RowDatas = []mysql.RowData{{1, '2'}}
	return nil
}
func (c *scConn) ReadMoreResult(maxRows int) (*mysql.Result, error) {
	if err := errIf(c.call("N", "n")); err != nil {
		return nil, err
	}
	c.w.mu.Lock()
	c.moreRes = false
	c.w.mu.Unlock()
	return scResult("select", true), nil
}

// ---------------------------------------------------------------- proxy set-up (once per process)

var scProxyCfg = &models.Proxy{
	ConfigType: "file", Environ: "local", Service: "gaea_proxy", Cluster: "gaea",
	LogLevel: "Notice", ProtoType: "tcp4", SlowSQLTime: 100000, SessionTimeout: 3600,
	StatsEnabled: "false", EncryptKey: "1234abcd5678efg*", ServerVersion: "5.7.25-gaea", NumCPU: 1,
}

func scNamespaceJSON(name string, ks, fb bool) string {
	fbs := "off"
	if fb {
		fbs = "on"
	}
	return fmt.Sprintf(`{"name":%q,"online":true,"read_only":false,
"allowed_dbs":{"db_ks":true},"default_phy_dbs":{"db_ks":"db_ks"},
"slices":[{"name":"slice-0","user_name":"root","password":"root","master":"127.0.0.1:1","slaves":["127.0.0.1:2"],"capacity":8,"max_capacity":16,"idle_timeout":3600,"handshake_timeout":50},
{"name":"slice-1","user_name":"root","password":"root","master":"127.0.0.1:3","slaves":["127.0.0.1:4"],"capacity":8,"max_capacity":16,"idle_timeout":3600,"handshake_timeout":50}],
"shard_rules":[{"db":"db_ks","table":"tbl_ks","type":"mod","key":"id","locations":[1,1],"slices":["slice-0","slice-1"]}],
"users":[{"user_name":"u_rw_%[1]s","password":"p","namespace":%[1]q,"rw_flag":2,"rw_split":1},
{"user_name":"u_w_%[1]s","password":"p","namespace":%[1]q,"rw_flag":2,"rw_split":0},
{"user_name":"u_r_%[1]s","password":"p","namespace":%[1]q,"rw_flag":1,"rw_split":1}],
"default_slice":"slice-0","max_sql_execute_time":0,"set_for_keep_session":%[2]v,"check_select_lock":true,
"fuse_enabled":"off","fallback_to_master_on_slave_fail":%[3]q}`, name, ks, fbs)
}

type scProxy struct {
	mgr    *server.Manager
	srv    *server.Server
	logger *scLogger
	cfgs   map[string]*models.Namespace
}

var (
	scOnce sync.Once
	scP    *scProxy
	scErr  error
)

func scNsName(ks, fb bool) string {
	n := "ns"
	if ks {
		n += "k"
	} else {
		n += "n"
	}
	if fb {
		n += "f"
	} else {
		n += "s"
	}
	return n
}

func scGetProxy() (*scProxy, error) {
	scOnce.Do(func() {
		lg := &scLogger{}
		log.SetGlobalLogger(lg)
		proxyCfg := scProxyCfg
		p := &scProxy{logger: lg, cfgs: map[string]*models.Namespace{}}
		var first *models.Namespace
		for _, ks := range []bool{false, true} {
			for _, fb := range []bool{false, true} {
				ns := &models.Namespace{}
				if err := json.Unmarshal([]byte(scNamespaceJSON(scNsName(ks, fb), ks, fb)), ns); err != nil {
					scErr = err
					return
				}
				p.cfgs[ns.Name] = ns
				if first == nil {
					first = ns
				}
			}
		}
		p.mgr, scErr = server.VerifC18NewManager(proxyCfg, first, lg)
		if scErr != nil {
			return
		}
		for name, ns := range p.cfgs {
			if name == first.Name {
				continue
			}
			if scErr = p.mgr.ReloadNamespacePrepare(ns); scErr != nil {
				return
			}
			if scErr = p.mgr.ReloadNamespaceCommit(name); scErr != nil {
				return
			}
		}
		p.srv, scErr = server.VerifC18NewServer(p.mgr, proxyCfg)
		scP = p
	})
	return scP, scErr
}

// ---------------------------------------------------------------- one session

type scRunner struct {
	p      *scProxy
	w      *scWorld
	ns     string
	sess   *server.Session
	net    *scNet
	done   chan struct{}
	alive  bool
	ctxIdx uint32
}

func (r *scRunner) installPools() {
	server.VerifC18InstallPools(r.p.mgr, r.ns, func(slice, role string, idx int, addr string) backend.ConnectionPool {
		return &scPool{w: r.w, slice: sliceIndex(slice), role: role, addr: addr}
	})
}

// start launches Session.Run and waits until it blocks reading a command.
func (r *scRunner) start() bool {
	r.done = make(chan struct{})
	done := r.done
	sess := r.sess
	go func() {
		defer close(done)
		sess.Run()
	}()
	r.alive = true
	return r.waitIdle()
}

// waitIdle waits until the session is idle again or Run returned.
func (r *scRunner) waitIdle() bool {
	select {
	case <-r.net.idle:
		return true
	case <-r.done:
		r.alive = false
		return true
	case <-time.After(10 * time.Second):
		return false
	}
}

func scPacket(cmd byte, data []byte) []byte {
	n := 1 + len(data)
	b := []byte{byte(n), byte(n >> 8), byte(n >> 16), 0, cmd}
	return append(b, data...)
}

func scRespKind(out []byte) string {
	if len(out) < 5 {
		return "none"
	}
	switch out[4] {
	case 0x00:
		return "ok"
	case 0xff:
		return "err"
	case 0xfe:
		return "eof"
	}
	return "res"
}

type scOp struct {
	body   core.Sexp
	ord    []int
	script map[string]string
	hasTmo bool
}

func scParseOp(e core.Sexp) scOp {
	op := scOp{body: e.Nth(0), script: map[string]string{}}
	for _, x := range e.Nth(1).List {
		op.ord = append(op.ord, int(x.Int()))
	}
	for _, f := range e.Nth(2).List {
		kind, slice, mode := f.Nth(0).Atom, f.Nth(1).Atom, f.Nth(2).Atom
		if _, dup := op.script[kind+":"+slice]; !dup {
			op.script[kind+":"+slice] = mode
		}
		if mode == "t" {
			op.hasTmo = true
		}
	}
	return op
}

func scSQL(body core.Sexp, user string) (byte, []byte) {
	q := func(s string) (byte, []byte) { return mysql.ComQuery, []byte(s) }
	switch body.Head() {
	case "q":
		shape, kind := body.Nth(1).Atom, body.Nth(2).Atom
		table, where := "t_plain", ""
		if shape == "s" {
			table = "tbl_ks"
			var ss []int
			for _, x := range body.List[3:] {
				ss = append(ss, int(x.Int()))
			}
			if len(ss) == 1 {
				where = fmt.Sprintf(" where id = %d", ss[0])
			}
		}
		switch kind {
		case "r":
			return q("select id from " + table + where)
		case "h":
			return q("select /*master*/ id from " + table + where)
		case "l":
			return q("select id from " + table + where + " for update")
		default:
			if where == "" && shape == "s" {
				return q("update " + table + " set v = 1")
			}
			if shape == "s" {
				return q("update " + table + " set v = 1" + where)
			}
			return q("insert into " + table + " (id) values (1)")
		}
	case "show":
		return q("show variables like 'version'")
	case "fl":
		return mysql.ComFieldList, append([]byte("t_plain\x00"), []byte("%")...)
	case "begin":
		return q("begin")
	case "commit":
		return q("commit")
	case "rollback":
		return q("rollback")
	case "ac":
		return q("set autocommit = " + body.Nth(1).Atom)
	case "sp":
		return q("savepoint s" + body.Nth(1).Atom)
	case "rel":
		return q("release savepoint s" + body.Nth(1).Atom)
	case "rbt":
		return q("rollback to s" + body.Nth(1).Atom)
	case "ping":
		return mysql.ComPing, nil
	case "quit":
		return mysql.ComQuit, nil
	}
	return mysql.ComSetOption, nil
}

const scTimeoutMs = 4

func (r *scRunner) snapshotWorld() (nconns int, st []scConn) {
	r.w.mu.Lock()
	defer r.w.mu.Unlock()
	for _, c := range r.w.conns {
		st = append(st, *c)
	}
	return len(r.w.conns), st
}

func (r *scRunner) restoreWorld(n int, st []scConn) {
	r.w.mu.Lock()
	defer r.w.mu.Unlock()
	r.w.conns = r.w.conns[:n]
	for i, c := range r.w.conns {
		c.returns, c.more, c.moreRes, c.inflight, c.uar, c.rif = st[i].returns, st[i].more, st[i].moreRes, st[i].inflight, st[i].uar, st[i].rif
		if c.closed && !st[i].closed {
			c.closed = false
			c.unblock = make(chan struct{})
		}
	}
}

func scOrderNames(ord []int) []string {
	var out []string
	for _, s := range ord {
		out = append(out, fmt.Sprintf("slice-%d", s))
	}
	return out
}

// runOp runs one command (re-running it from the snapshot until Go's map
// iteration followed the prescribed order) and returns its output element.
func (r *scRunner) runOp(op scOp, user string) string {
	if !r.alive {
		return "(dead)"
	}
	snap := server.VerifC18Snapshot(r.sess)
	// candidates of the loops that stop at the first failure
	var stmtSlices, heldSlices []int
	if op.body.Head() == "q" && op.body.Nth(1).Atom == "s" {
		seen := map[int]bool{}
		for _, x := range op.body.List[3:] {
			if !seen[int(x.Int())] {
				seen[int(x.Int())] = true
				stmtSlices = append(stmtSlices, int(x.Int()))
			}
		}
	}
	for k := range snap.TxConns {
		heldSlices = append(heldSlices, sliceIndex(k))
	}
	for k := range snap.KsConns {
		heldSlices = append(heldSlices, sliceIndex(k))
	}
	sort.Ints(heldSlices)
	nconns, cst := r.snapshotWorld()
	order := scOrderNames(op.ord)
	resp := "none"
	var events []scEvent
	forced := false
	for try := 0; try < 200; try++ {
		// (re)establish the state before the command
		r.restoreWorld(nconns, cst)
		if !r.alive {
			r.net = newScNet()
			server.VerifC18Restore(r.sess, snap, order, r.net)
			if !r.start() {
				return "(hang)"
			}
		} else {
			server.VerifC18Restore(r.sess, snap, order, nil)
		}
		w := r.w
		w.mu.Lock()
		w.events = nil
		w.script = op.script
		w.rank = map[int]int{}
		for i, s := range op.ord {
			w.rank[s] = i
		}
		w.lastRank = map[uint64]int{}
		w.firstSeq = map[string][]int{}
		w.orderBad = false
		w.tmoSeen = 0
		w.mu.Unlock()
		kills := atomic.LoadInt64(&r.p.logger.killFail)
		if op.hasTmo {
			server.VerifC18SetMaxExecTime(r.p.mgr, r.ns, scTimeoutMs)
		}

		switch op.body.Head() {
		case "nsc":
			if len(op.ord) > 0 {
				// the whole reload: a new Namespace with new slices and pools
				cfg := r.p.cfgs[r.ns]
				if err := r.p.mgr.ReloadNamespacePrepare(cfg); err != nil {
					return "(reload-failed)"
				}
				if err := r.p.mgr.ReloadNamespaceCommit(r.ns); err != nil {
					return "(reload-failed)"
				}
				r.installPools()
			} else {
				// what a session observes of it: a namespace with the next change index
				server.VerifC18BumpNamespace(r.p.mgr, r.ns)
			}
			resp = "ok"
		case "disc":
			close(r.net.in)
			if !r.waitIdle() {
				return "(hang)"
			}
			resp = scRespKind(r.net.takeOut())
		default:
			cmd, data := scSQL(op.body, user)
			select {
			case r.net.in <- scPacket(cmd, data):
			case <-time.After(10 * time.Second):
				return "(hang)"
			}
			if !r.waitIdle() {
				return "(hang)"
			}
			resp = scRespKind(r.net.takeOut())
		}
		if op.hasTmo {
			server.VerifC18SetMaxExecTime(r.p.mgr, r.ns, 0)
		}
		w.mu.Lock()
		events = append([]scEvent{}, w.events...)
		bad := w.orderBad || !w.prefixOK("conns", stmtSlices) || !w.prefixOK("held", heldSlices)
		tmo := w.tmoSeen
		w.script = map[string]string{}
		w.mu.Unlock()
		// a statement timeout that was not scripted (a stall of this process): run again
		spurious := int(atomic.LoadInt64(&r.p.logger.killFail)-kills) != tmo
		if !bad && !spurious {
			forced = true
			break
		}
		if op.body.Head() == "nsc" {
			forced = true
			break
		}
	}
	if !forced {
		return "(order-not-forced)"
	}
	// canonical form of the events recorded from worker goroutines: grouped by slice
	for i := 0; i < len(events); {
		if !events[i].child {
			i++
			continue
		}
		j := i
		for j < len(events) && events[j].child {
			j++
		}
		sort.SliceStable(events[i:j], func(a, b int) bool { return events[i+a].slice < events[i+b].slice })
		i = j
	}
	var sb strings.Builder
	sb.WriteString("(" + resp + " " + r.stateString())
	for _, e := range events {
		sb.WriteByte(' ')
		sb.WriteString(e.String())
	}
	sb.WriteString(")")
	return sb.String()
}

func scConnsString(tag string, m map[string]backend.PooledConnect) string {
	var keys []string
	for k := range m {
		keys = append(keys, k)
	}
	sort.Strings(keys)
	s := "(" + tag
	for _, k := range keys {
		id := -1
		if c, ok := m[k].(*scConn); ok {
			id = c.id
		}
		s += fmt.Sprintf(" (%d %d)", sliceIndex(k), id)
	}
	return s + ")"
}

func (r *scRunner) stateString() string {
	sn := server.VerifC18Snapshot(r.sess)
	b := func(x bool) string {
		if x {
			return "t"
		}
		return "f"
	}
	return fmt.Sprintf("(s %s %s %s %s %s)", b(sn.Status&mysql.ServerStatusAutocommit > 0), b(sn.Status&mysql.ServerStatusInTrans > 0),
		scConnsString("tx", sn.TxConns), scConnsString("ks", sn.KsConns), b(sn.Closed))
}

// scExec runs one whole session.
func scExec(in core.Sexp) string {
	p, err := scGetProxy()
	if err != nil {
		return "(err setup " + core.Text(err.Error()).String() + ")"
	}
	if in.Head() != "sess" || len(in.List) < 2 {
		return "(err bad-input)"
	}
	cfg := in.Nth(1)
	ks, userKind, fb := cfg.Nth(1).Bool(), cfg.Nth(2).Atom, cfg.Nth(3).Bool()
	ns := scNsName(ks, fb)
	user := "u_" + userKind + "_" + ns
	w := &scWorld{script: map[string]string{}, rank: map[int]int{}, lastRank: map[uint64]int{}, firstSeq: map[string][]int{}, done: make(chan struct{})}
	defer close(w.done)
	r := &scRunner{p: p, w: w, ns: ns}
	r.installPools()
	r.net = newScNet()
	r.sess = server.VerifC18NewSession(p.srv, r.net, ns, user, "db_ks")
	if !r.start() {
		return "(hang)"
	}
	var sb strings.Builder
	sb.WriteString("(")
	for _, e := range in.List[2:] {
		sb.WriteString(r.runOp(scParseOp(e), user))
		sb.WriteByte(' ')
	}
	// release the session if the script left it open (not part of the observation)
	sb.WriteString("(end")
	w.mu.Lock()
	for _, c := range w.conns {
		tf := func(b bool) string {
			if b {
				return "t"
			}
			return "f"
		}
		sb.WriteString(fmt.Sprintf(" (c %d %s %d %s %d %s %s %s)", c.id, c.pool.role, c.pool.slice, tf(c.closed), c.returns, tf(c.uar), tf(c.rif), tf(c.dup)))
	}
	w.mu.Unlock()
	sb.WriteString("))")
	if r.alive {
		w.mu.Lock()
		w.script = map[string]string{}
		w.rank = map[int]int{}
		w.lastRank = map[uint64]int{}
		w.firstSeq = map[string][]int{}
		w.mu.Unlock()
		close(r.net.in)
		r.waitIdle()
	}
	return sb.String()
}
