package props

import (
	"fmt"
	"sort"
	"strings"
	"sync"
	"time"

	"gaeaverif/harness/core"

	"github.com/XiaoMi/Gaea/proxy/router"
)

// C07, generator of scenarios. Statement families (those of the C01/C03/C05 generators, in
// compact form): SELECT (no condition, =, IN, ranges, OR, BETWEEN, alias, database-qualified
// columns, GROUP BY/ORDER BY/LIMIT, UNION, EXPLAIN, parent/child JOIN), INSERT … VALUES (one and
// several rows), INSERT … SET, REPLACE (both forms), INSERT IGNORE / ON DUPLICATE KEY UPDATE,
// UPDATE, DELETE; the mycat DATABASE() and sql= hints; global tables; tables with a global
// sequence (column left out, nextval(), NULL); tables without a rule in three databases, one of
// them without any rule; columns qualified with a foreign database; COM_FIELD_LIST lookups.
// Every family is generated for every rule with keys routed to every sub table.

type c07Lits struct {
	byIdx map[int][]string // sub table index -> literals (SQL text) routed there
	idxs  []int
}

var (
	c07LitOnce sync.Once
	c07LitMap  map[string]*c07Lits // rule name -> literals
)

func c07RuleLits() map[string]*c07Lits {
	c07LitOnce.Do(func() {
		c07LitMap = map[string]*c07Lits{}
		// the placement function of the rule itself (Rule.FindTableIndex on a router of its own), not the
		// planner: what the generator knows must not depend on the code under test having planned before
		env := c07NewRouterEnv()
		find := func(rule router.Rule, key interface{}) (idx int, ok bool) {
			defer func() {
				if recover() != nil {
					ok = false
				}
			}()
			i, err := rule.FindTableIndex(key)
			return i, err == nil
		}
		for _, r := range c07Shards {
			if r.kind == "global" {
				continue
			}
			type cand struct {
				sql string
				key interface{}
			}
			var cands []cand
			if r.kind == "num" {
				for k := 0; k <= 420; k++ {
					cands = append(cands, cand{fmt.Sprint(k), int64(k)})
				}
				for _, k := range []int{511, 512, 600, 767, 768, 900, 1023} {
					cands = append(cands, cand{fmt.Sprint(k), int64(k)})
				}
			} else {
				d0 := time.Date(2014, 1, 1, 0, 0, 0, 0, time.UTC)
				for d := d0; d.Year() < 2020; d = d.AddDate(0, 0, 17) {
					cands = append(cands, cand{"'" + d.Format("2006-01-02") + "'", d.Format("2006-01-02")})
				}
				for d := time.Date(2015, 10, 25, 0, 0, 0, 0, time.UTC); d.Before(time.Date(2016, 5, 5, 0, 0, 0, 0, time.UTC)); d = d.AddDate(0, 0, 1) {
					cands = append(cands, cand{"'" + d.Format("2006-01-02") + "'", d.Format("2006-01-02")})
				}
			}
			ls := &c07Lits{byIdx: map[int][]string{}}
			rule := env.rt.GetRule(r.db, r.table)
			valid := map[int]bool{}
			for _, i := range rule.GetSubTableIndexes() {
				valid[i] = true
			}
			for _, c := range cands {
				i, ok := find(rule, c.key)
				if !ok || !valid[i] { // (a date outside the configured ranges is placed in a table that does not exist)
					continue
				}
				if len(ls.byIdx[i]) < 6 {
					ls.byIdx[i] = append(ls.byIdx[i], c.sql)
				}
			}
			for i := range ls.byIdx {
				ls.idxs = append(ls.idxs, i)
			}
			sort.Ints(ls.idxs)
			if len(ls.idxs) == 0 { // a rule that places nothing: the statements are still sent
				ls.byIdx[0] = []string{cands[0].sql, cands[1].sql}
				ls.idxs = []int{0}
			}
			c07LitMap[r.name] = ls
		}
	})
	return c07LitMap
}

// a literal routed to sub table number `which` (counted among the sub tables of the rule)
func c07Lit(g *core.Gen, r *c07ShardCfg, which int) string {
	ls := c07RuleLits()[r.name]
	idx := ls.idxs[which%len(ls.idxs)]
	return core.Pick(g, ls.byIdx[idx])
}

func c07NumSub(r *c07ShardCfg) int { return len(c07RuleLits()[r.name].idxs) }

var c07Families = []string{
	"sel-all", "sel-eq", "sel-in", "sel-gt", "sel-le", "sel-between", "sel-or", "sel-agg", "sel-alias", "sel-dbqual", "sel-union", "sel-join", "explain",
	"ins-values", "ins-rows", "ins-set", "rep-values", "rep-set", "ins-ondup", "ins-ignore", "ins-seq-null", "ins-seq-nextval", "ins-set-nextval",
	"upd-eq", "upd-in", "upd-all", "del-eq", "del-gt", "del-all", "hint-database", "hint-sql", "col-foreign-db",
}

// c07Stmt renders one statement of a family on a sharded table; which = the sub table its key is routed to.
// ok=false: the family does not apply to this rule.
func c07Stmt(g *core.Gen, r *c07ShardCfg, fam string, which int) (db, sql string, ok bool) {
	t, k := r.table, r.key
	l := c07Lit(g, r, which)
	l2 := c07Lit(g, r, which+1+g.Intn(3))
	l3 := c07Lit(g, r, g.Intn(8))
	db = r.db
	if g.Intn(6) == 0 { // the table named with its database from a session in another one
		t = r.db + "." + r.table
		db = core.Pick(g, []string{"db_ks", "db_mycat", "db_other"})
	}
	seqCol := r.seq
	switch fam {
	case "sel-all":
		sql = "SELECT * FROM " + t
	case "sel-eq":
		sql = fmt.Sprintf("SELECT * FROM %s WHERE %s = %s", t, k, l)
	case "sel-in":
		sql = fmt.Sprintf("SELECT * FROM %s WHERE %s IN (%s, %s)", t, k, l, l2)
	case "sel-gt":
		sql = fmt.Sprintf("SELECT * FROM %s WHERE %s > %s", t, k, l)
	case "sel-le":
		sql = fmt.Sprintf("SELECT * FROM %s WHERE %s <= %s", t, k, l)
	case "sel-between":
		sql = fmt.Sprintf("SELECT * FROM %s WHERE %s BETWEEN %s AND %s", t, k, l, l2)
	case "sel-or":
		sql = fmt.Sprintf("SELECT * FROM %s WHERE %s = %s OR %s = %s OR a = 5", t, k, l, k, l2)
		if g.Intn(2) == 0 {
			sql = fmt.Sprintf("SELECT * FROM %s WHERE %s = %s OR %s >= %s", t, k, l, k, l2)
		}
	case "sel-agg":
		sql = fmt.Sprintf("SELECT a, COUNT(*), MAX(b) FROM %s WHERE %s >= %s GROUP BY a ORDER BY a DESC LIMIT 3", t, k, l)
	case "sel-alias":
		sql = fmt.Sprintf("SELECT x.a FROM %s AS x WHERE x.%s = %s AND x.a < 9", t, k, l)
	case "sel-dbqual":
		sql = fmt.Sprintf("SELECT * FROM %s WHERE %s.%s.%s = %s", r.db+"."+r.table, r.db, r.table, k, l)
	case "sel-union":
		sql = fmt.Sprintf("SELECT a FROM %s WHERE %s = %s UNION SELECT a FROM %s WHERE %s = %s", t, k, l, t, k, l2)
	case "sel-join":
		if r.name != "range4" && r.name != "linked" {
			return "", "", false
		}
		db = "db_ks"
		sql = fmt.Sprintf("SELECT * FROM t_r100 p JOIN t_r100_child c ON p.k = c.pk WHERE p.k = %s", c07Lit(g, &c07Shards[2], which))
		if g.Intn(2) == 0 {
			sql = fmt.Sprintf("SELECT * FROM t_r100 p, t_gks g WHERE p.a = g.a AND p.k IN (%s, %s)", c07Lit(g, &c07Shards[2], which), c07Lit(g, &c07Shards[2], which+2))
		}
	case "explain":
		sql = fmt.Sprintf("EXPLAIN SELECT * FROM %s WHERE %s = %s", t, k, l)
	case "ins-values":
		sql = fmt.Sprintf("INSERT INTO %s (%s, a) VALUES (%s, 1)", t, k, l)
	case "ins-rows":
		sql = fmt.Sprintf("INSERT INTO %s (a, %s) VALUES (1, %s), (2, %s), (3, %s)", t, k, l, l2, l3)
	case "ins-set":
		sql = fmt.Sprintf("INSERT INTO %s SET %s = %s, a = 7", t, k, l)
	case "rep-values":
		sql = fmt.Sprintf("REPLACE INTO %s (%s, a) VALUES (%s, 1), (%s, 2)", t, k, l, l2)
	case "rep-set":
		sql = fmt.Sprintf("REPLACE INTO %s SET a = 'x', %s = %s", t, k, l)
	case "ins-ondup":
		sql = fmt.Sprintf("INSERT INTO %s (%s, a) VALUES (%s, 1) ON DUPLICATE KEY UPDATE a = a + 1", t, k, l)
	case "ins-ignore":
		sql = fmt.Sprintf("INSERT IGNORE INTO %s (%s, a) VALUES (%s, 1)", t, k, l)
	case "ins-seq-null":
		if seqCol == "" {
			return "", "", false
		}
		sql = fmt.Sprintf("INSERT INTO %s (%s, %s, a) VALUES (NULL, %s, 1), (17, %s, 2)", t, seqCol, k, l, l2)
	case "ins-seq-nextval":
		if seqCol == "" {
			return "", "", false
		}
		sql = fmt.Sprintf("INSERT INTO %s (%s, a, %s) VALUES (%s, 1, nextval()), (%s, 2, nextval())", t, k, seqCol, l, l2)
	case "ins-set-nextval":
		if seqCol == "" {
			return "", "", false
		}
		sql = fmt.Sprintf("INSERT INTO %s SET %s = %s, %s = nextval()", t, k, l, seqCol)
	case "upd-eq":
		sql = fmt.Sprintf("UPDATE %s SET a = 1 WHERE %s = %s", t, k, l)
	case "upd-in":
		sql = fmt.Sprintf("UPDATE %s SET a = a + 1 WHERE %s IN (%s, %s) AND b = 2", t, k, l, l2)
	case "upd-all":
		sql = fmt.Sprintf("UPDATE %s SET a = 0 WHERE a = 1", t)
	case "del-eq":
		sql = fmt.Sprintf("DELETE FROM %s WHERE %s = %s", t, k, l)
	case "del-gt":
		sql = fmt.Sprintf("DELETE FROM %s WHERE %s > %s", t, k, l)
	case "del-all":
		sql = "DELETE FROM " + t
	case "hint-database":
		if r.db != "db_mycat" {
			return "", "", false
		}
		sql = fmt.Sprintf("SELECT * FROM %s WHERE DATABASE() = 'db_mycat_%d'", t, which%4)
	case "hint-sql":
		if r.db != "db_mycat" {
			return "", "", false
		}
		sql = fmt.Sprintf("SELECT * FROM %s /* !mycat:sql=select 1 from %s where %s = %s */", t, r.table, k, l)
	case "col-foreign-db":
		// a column qualified with a database that has no rule for the table: rejected
		sql = fmt.Sprintf("SELECT * FROM %s WHERE db_other.%s.%s = %s", r.table, r.table, k, l)
		db = r.db
		if g.Intn(3) == 0 {
			sql = fmt.Sprintf("UPDATE %s SET a = 1 WHERE db_other.%s.%s IN (%s, %s)", r.table, r.table, k, l, l2)
		}
	default:
		return "", "", false
	}
	return db, sql, true
}

// statements on tables without a shard rule, global tables, field lists
func c07OtherItem(g *core.Gen) core.Sexp {
	switch g.Intn(12) {
	case 0, 1:
		db := core.Pick(g, []string{"db_ks", "db_mycat", "db_other", "db_other"})
		return c07Q(db, fmt.Sprintf("SELECT * FROM t_plain_%d WHERE id = %d", g.Intn(3), g.Intn(50)))
	case 2:
		db := core.Pick(g, []string{"db_ks", "db_other"})
		return c07Q(db, fmt.Sprintf("UPDATE t_plain_%d SET a = 1 WHERE id IN (%d, %d)", g.Intn(3), g.Intn(9), g.Intn(9)))
	case 3:
		db := core.Pick(g, []string{"db_ks", "db_mycat", "db_other"})
		return c07Q(db, fmt.Sprintf("INSERT INTO db_other.t_plain_%d (id, a) VALUES (%d, 'x')", g.Intn(3), g.Intn(50)))
	case 4:
		return c07Q("db_other", fmt.Sprintf("DELETE FROM t_plain_%d WHERE id = %d", g.Intn(3), g.Intn(50)))
	case 5:
		r := core.Pick(g, []string{"t_gks", "t_gmy"})
		db := "db_ks"
		if r == "t_gmy" {
			db = "db_mycat"
		}
		return c07Q(db, core.Pick(g, []string{
			"SELECT * FROM " + r + " WHERE a = 1",
			"SELECT COUNT(*) FROM " + r,
			fmt.Sprintf("INSERT INTO %s (k, a) VALUES (%d, 1)", r, g.Intn(9)),
			fmt.Sprintf("UPDATE %s SET a = 2 WHERE k = %d", r, g.Intn(9)),
			fmt.Sprintf("DELETE FROM %s WHERE k = %d", r, g.Intn(9)),
			fmt.Sprintf("REPLACE INTO %s SET k = %d, a = 3", r, g.Intn(9)),
		}))
	case 6:
		return c07Q("db_ks", fmt.Sprintf("SELECT * FROM t_hash h, t_gks g WHERE h.a = g.a AND h.k = %d", g.Intn(40)))
	case 7, 8:
		// COM_FIELD_LIST: tables with and without a rule, in databases with and without rules
		db := core.Pick(g, []string{"db_ks", "db_mycat", "db_other"})
		tbl := core.Pick(g, []string{"t_hash", "t_r100", "t_mmod", "t_gks", "t_plain_0", "t_plain_1", "db_ks.t_mod", "db_other.t_plain_2"})
		return core.L(core.A("fl"), core.Text(db), core.Text(tbl))
	case 9:
		return c07Q(core.Pick(g, []string{"db_ks", "db_other"}), "SELECT 1")
	case 10:
		return c07Q("db_other", fmt.Sprintf("SELECT * FROM db_ks.t_hash WHERE k = %d", g.Intn(40)))
	default:
		return c07Q("db_ks", fmt.Sprintf("SELECT * FROM t_plain_0 p WHERE p.id IN (SELECT id FROM t_plain_1 WHERE a = %d)", g.Intn(5)))
	}
}

var (
	c07DrawMu    sync.Mutex
	c07DrawCache = map[string][2]string{}
)

// c07Q builds (q DB SQL D KEY): D and KEY are what planning the statement alone draws
func c07Q(db, sql string) core.Sexp {
	c07DrawMu.Lock()
	v, ok := c07DrawCache[db+"|"+sql]
	c07DrawMu.Unlock()
	if !ok {
		env := c07NewRouterEnv()
		func() {
			defer func() { recover() }() // a panic of the planner is found when the case runs, not here
			env.plan(c07Item{db: db, sql: sql})
		}()
		v = [2]string{"0", "-"}
		for key, n := range env.seqs.counts() {
			if n > 0 {
				v = [2]string{fmt.Sprint(n), key}
			}
		}
		c07DrawMu.Lock()
		c07DrawCache[db+"|"+sql] = v
		c07DrawMu.Unlock()
	}
	return core.L(core.A("q"), core.Text(db), core.Text(sql), core.A(v[0]), core.A(v[1]))
}

func c07Session(items []core.Sexp) core.Sexp {
	return core.L(append([]core.Sexp{core.A("ses")}, items...)...)
}

func c07Scenario(sessions ...core.Sexp) core.Sexp {
	return core.L(append([]core.Sexp{core.A("sc")}, sessions...)...)
}

func c07Sharded() []*c07ShardCfg {
	var out []*c07ShardCfg
	for i := range c07Shards {
		if c07Shards[i].kind != "global" {
			out = append(out, &c07Shards[i])
		}
	}
	return out
}

// the statements another session sends on the same table: everything that starts from the
// whole sub table list of the rule
func c07Probe(g *core.Gen, r *c07ShardCfg) []core.Sexp {
	var out []core.Sexp
	for _, fam := range []string{"sel-all", "upd-all", "sel-in", "sel-gt", "del-all", "sel-le"} {
		if g.Intn(3) == 0 {
			continue
		}
		db, sql, ok := c07Stmt(g, r, fam, g.Intn(8))
		if ok {
			out = append(out, c07Q(db, sql))
		}
	}
	if len(out) == 0 {
		_, sql, _ := c07Stmt(g, r, "sel-all", 0)
		out = append(out, c07Q(r.db, sql))
	}
	return out
}

func genC07Scenarios(g *core.Gen) {
	rules := c07Sharded()
	// 1. systematic: one session sends a statement of family F on rule R with a key routed to sub table I,
	// another one works on the same table (and on its parent / child); a third one elsewhere.
	type combo struct {
		r   *c07ShardCfg
		fam string
		i   int
	}
	var combos []combo
	for _, r := range rules {
		for _, fam := range c07Families {
			for i := 0; i < c07NumSub(r); i++ {
				combos = append(combos, combo{r, fam, i})
			}
		}
	}
	g.Rand.Shuffle(len(combos), func(a, b int) { combos[a], combos[b] = combos[b], combos[a] })
	// every family at least twice in every run, once with a key that is not routed to the first sub table
	var first []combo
	for _, fam := range c07Families {
		n := 0
		for _, c := range combos {
			if c.fam != fam {
				continue
			}
			if _, _, ok := c07Stmt(g, c.r, c.fam, c.i); !ok {
				continue
			}
			if n == 0 && c.i == 0 {
				continue
			}
			first = append(first, c)
			if n++; n == 2 {
				break
			}
		}
	}
	combos = append(first, combos...)
	nsys := g.Scale(len(first)+16, len(first)+240)
	done := 0
	for _, c := range combos {
		if done >= nsys {
			break
		}
		db, sql, ok := c07Stmt(g, c.r, c.fam, c.i)
		if !ok {
			continue
		}
		a := []core.Sexp{c07Q(db, sql)}
		if g.Intn(2) == 0 {
			if db2, sql2, ok := c07Stmt(g, c.r, core.Pick(g, c07Families), g.Intn(8)); ok {
				a = append(a, c07Q(db2, sql2))
			}
		}
		b := c07Probe(g, c.r)
		if g.Intn(3) == 0 { // the same text from the second session too (one plan per session, not per text)
			b = append(b, a[0])
		}
		ss := []core.Sexp{c07Session(a), c07Session(b)}
		if g.Intn(3) == 0 {
			ss = append(ss, c07Session([]core.Sexp{c07OtherItem(g), c07OtherItem(g)}))
		}
		g.Emit(c07Scenario(ss...), "scenario", "systematic", "family="+c.fam, "rule="+c.r.name, fmt.Sprintf("subtable=%d", c.i))
		done++
	}
	// 2. random: 2-4 sessions, a table most of them work on
	for n := 0; n < g.Scale(25, 120); n++ {
		focus := core.Pick(g, rules)
		var ss []core.Sexp
		for s := 0; s < 2+g.Intn(3); s++ {
			var items []core.Sexp
			for i := 0; i < 2+g.Intn(5); i++ {
				switch x := g.Intn(10); {
				case x < 6:
					if db, sql, ok := c07Stmt(g, focus, core.Pick(g, c07Families), g.Intn(8)); ok {
						items = append(items, c07Q(db, sql))
					}
				case x < 8:
					if db, sql, ok := c07Stmt(g, core.Pick(g, rules), core.Pick(g, c07Families), g.Intn(8)); ok {
						items = append(items, c07Q(db, sql))
					}
				default:
					items = append(items, c07OtherItem(g))
				}
			}
			if len(items) > 0 {
				ss = append(ss, c07Session(items))
			}
		}
		if len(ss) >= 2 {
			g.Emit(c07Scenario(ss...), "scenario", "random", "rule="+focus.name, fmt.Sprintf("sessions=%d", len(ss)))
		}
	}
	// 3. the same INSERT text from several sessions on the tables with a global sequence
	for n := 0; n < g.Scale(6, 30); n++ {
		r := core.Pick(g, []*c07ShardCfg{&c07Shards[0], &c07Shards[8]})
		fam := core.Pick(g, []string{"ins-values", "ins-rows", "ins-seq-null", "ins-seq-nextval", "ins-set-nextval", "rep-values", "ins-set"})
		db, sql, ok := c07Stmt(g, r, fam, g.Intn(4))
		if !ok {
			continue
		}
		q := c07Q(db, sql)
		var ss []core.Sexp
		for s := 0; s < 2+g.Intn(3); s++ {
			items := []core.Sexp{q}
			if g.Intn(2) == 0 {
				items = append(items, q)
			}
			if g.Intn(2) == 0 {
				if db2, sql2, ok := c07Stmt(g, r, core.Pick(g, []string{"sel-all", "ins-values", "upd-eq"}), g.Intn(4)); ok {
					items = append(items, c07Q(db2, sql2))
				}
			}
			ss = append(ss, c07Session(items))
		}
		g.Emit(c07Scenario(ss...), "scenario", "same-text", "family="+fam, "rule="+r.name)
	}
	_ = strings.TrimSpace
}
