package props

import "gaeaverif/harness/core"

// C23 — keep-session clients stay pinned to their backend connections.
// Machinery in sessconns.go, generator in c18.go (emphasis on keep-session
// namespaces, pings and namespace reloads).

func init() {
	core.Register(&core.Property{
		ID:          "C23",
		Rule:        "client sessions, mostly of keep-session namespaces (random command sequences with pings, namespace reloads, scripted backend faults, map-iteration orders; fault-sweep templates; exhaustive short sequences in the thorough tier) run through the real Session.Run with fake pools; event trace, session state after every command and final ledger compared with the Lean model; non-trivial = at least one backend connection taken",
		Generate:    func(g *core.Gen) { scGenerate(g, "C23") },
		Exec:        scExec,
		Trivial:     scTrivial,
		Assumptions: scAssumptions,
	})
}
