package props

import (
	"errors"
	"fmt"
	"math"
	"regexp"
	"strconv"
	"strings"
	"time"

	"gaeaverif/harness/core"

	"github.com/XiaoMi/Gaea/mysql"
)

// C13 — text-protocol rows of the backend → binary-protocol rows for a
// prepared-statement client: RowData.ParseText, Result.BuildBinaryResultSet
// (BuildBinaryResultset, AppendBinaryValue, stringToMysqlTime,
// mysqlTimeToBinaryResult) of /repo/mysql.

func init() {
	core.Register(&core.Property{
		ID: "C13",
		Rule: "resultsets of 0–24 columns over every column type code (0x00–0x13, 0xf5–0xff and unknown codes) with random flag words, 1–3 rows; " +
			"cells drawn from per-type boundary lists (integer extremes ±1 per width and signedness and values beyond the width, zero/partial/out-of-calendar dates and datetimes with and without fractions, fractions of 1–10 digits, " +
			"times ±838:59:59.999999, >24h, -0, decimals with trailing zeros/exponents/19+ digits) plus random valid values and out-of-domain spellings; " +
			"byte strings of 0/1/250/251/252/255/256/65535/65536 (thorough: up to 300000) bytes with NUL and non-UTF-8 bytes in every byte-string type, and of 16777215/16777216 (thorough: up to 32 MiB) bytes through theorem big_cell_row (request kind big); " +
			"NULL in every column position for 0–23 columns; a malformed stream (truncated rows, trailing bytes, non-minimal and invalid length prefixes); " +
			"AppendBinaryValue on every dynamic value kind × every field type; " +
			"whole COM_STMT_EXECUTE results over the wire (request kind wire): a scripted backend sends column-definition packets (random names incl. empty/250+/non-UTF-8, character sets, lengths, decimals, every type and flag word; 1–300 columns; malformed, truncated, COM_FIELD_LIST-style and non-minimal definitions) and text rows, DirectConnection.Execute reads them, Session.writeResponse sends the binary result, the packets the client receives are compared; " +
			"non-trivial = the implementation produced binary rows",
		Generate: genC13,
		Exec:     execC13,
		Trivial: func(in core.Sexp, out string) bool {
			return !strings.HasPrefix(out, "(ok")
		},
		Assumptions: []string{
			"floats are opaque: strconv.ParseFloat, the float64→float32 conversion and strconv.FormatFloat are not modelled; their results on the float cells of each case are computed by the harness and handed to the model (FloatOps), so the theorems hold for whatever these functions compute",
			"strconv.ParseInt/ParseUint/Itoa, time.Parse (three layouts), shopspring/decimal NewFromString/String and math/big's decimal conversion are modelled from their sources, validated by this correspondence, not verified",
			"the spec decoder BinProto.decodeBinRow is this project's reading of the MySQL binary resultset row format (NEWDATE read like DATE, as go-sql-driver and Gaea's own ParseBinary do)",
			"decimals are compared numerically (1.50 and 1.5 are the same value)",
			"the backend speaks the MySQL protocol towards the proxy: no zero-length packet and no row starting with 0xff inside a result set; column definitions are quantified in the theorems as the packets a server sends (minimal length prefixes, no default value); FieldData.Parse panics on a definition whose fixed-length part is cut short (modelled as such, outside the property)",
			"request kind big: the driver answers from theorem C13.big_cell_row instead of running the list-based model on a 16 MiB cell (for lengths ≤ 70000 it runs both and insists that they agree)",
		},
	})
}

func c13ErrKind(err error) string {
	var ne *strconv.NumError
	if errors.As(err, &ne) {
		switch ne.Func {
		case "ParseInt":
			return "parse-int"
		case "ParseUint":
			return "parse-uint"
		case "ParseFloat":
			return "parse-float"
		}
	}
	m := err.Error()
	switch {
	case strings.HasPrefix(m, "ReadLenEncStringAsBytes in ParseText"):
		return "text-row"
	case strings.HasPrefix(m, "can't convert"):
		return "parse-decimal"
	case strings.HasPrefix(m, "row ") && strings.Contains(m, "columns not equal"):
		return "col-count"
	case strings.HasPrefix(m, "row ") && strings.Contains(m, "is out of range for field type"):
		return "int-range"
	case strings.HasPrefix(m, "invalid TypeDatetime"), strings.HasPrefix(m, "invalid TypeTimestamp"):
		return "datetime"
	case strings.HasPrefix(m, "invalid TypeDuration"):
		return "duration"
	case strings.HasPrefix(m, "unsupported field type") && strings.HasSuffix(m, "decimal.Decimal"):
		return "decimal-field-type"
	case strings.HasPrefix(m, "AppendBinaryValue: unsupported type"):
		return "value-type"
	case strings.HasPrefix(m, "AppendBinaryValue: insufficient data length"):
		return "short-data"
	case strings.HasPrefix(m, "AppendBinaryValue: unsupported field type"):
		return "field-type"
	}
	return "other"
}

func c13Fields(s core.Sexp) []*mysql.Field {
	var fs []*mysql.Field
	for _, f := range s.List {
		fs = append(fs, &mysql.Field{Type: uint8(f.Nth(0).Uint()), Flag: uint16(f.Nth(1).Uint())})
	}
	return fs
}

func execC13(in core.Sexp) string {
	switch in.Head() {
	case "rows":
		fields := c13Fields(in.Nth(1))
		var values [][]interface{}
		for _, r := range in.List[3:] {
			v, err := mysql.RowData(r.Bytes()).ParseText(fields)
			if err != nil {
				return "(err " + c13ErrKind(err) + ")"
			}
			values = append(values, v)
		}
		res := &mysql.Result{Resultset: &mysql.Resultset{Fields: fields, Values: values}}
		if err := res.BuildBinaryResultSet(); err != nil {
			return "(err " + c13ErrKind(err) + ")"
		}
		if len(res.RowDatas) != len(values) {
			return "(row-count-differs)"
		}
		parts := []string{"ok"}
		for _, rd := range res.RowDatas {
			parts = append(parts, core.Hex(rd).String())
		}
		return "(" + strings.Join(parts, " ") + ")"
	case "wire":
		return execC13Wire(in)
	case "big":
		return execC13Big(uint8(in.Nth(1).Uint()), uint16(in.Nth(2).Uint()), int(in.Nth(3).Uint()))
	case "abv":
		ty := uint8(in.Nth(1).Uint())
		gv := in.Nth(2)
		var v interface{}
		switch gv.Head() {
		case "nil":
			v = nil
		case "other":
			v = struct{}{}
		case "i64":
			n := gv.Nth(1).Int()
			// every signed Go integer type that holds the value must behave alike
			outs := map[string]bool{}
			var cands []interface{}
			cands = append(cands, n, int(n))
			if n >= math.MinInt8 && n <= math.MaxInt8 {
				cands = append(cands, int8(n))
			}
			if n >= math.MinInt16 && n <= math.MaxInt16 {
				cands = append(cands, int16(n))
			}
			if n >= math.MinInt32 && n <= math.MaxInt32 {
				cands = append(cands, int32(n))
			}
			var last string
			for _, c := range cands {
				last = c13Abv(ty, c)
				outs[last] = true
			}
			if len(outs) != 1 {
				return "(int-kinds-differ)"
			}
			return last
		case "u64":
			n := gv.Nth(1).Uint()
			outs := map[string]bool{}
			var cands []interface{}
			cands = append(cands, n, uint(n))
			if n <= math.MaxUint8 {
				cands = append(cands, uint8(n))
			}
			if n <= math.MaxUint16 {
				cands = append(cands, uint16(n))
			}
			if n <= math.MaxUint32 {
				cands = append(cands, uint32(n))
			}
			var last string
			for _, c := range cands {
				last = c13Abv(ty, c)
				outs[last] = true
			}
			if len(outs) != 1 {
				return "(uint-kinds-differ)"
			}
			return last
		case "f64":
			v = math.Float64frombits(gv.Nth(1).Uint())
		case "dec":
			d, err := mysql.VerifDecimalFromString(gv.Nth(1).Str())
			if err != nil {
				return "bad"
			}
			v = d
		case "str":
			v = gv.Nth(1).Str()
		case "bytes":
			v = gv.Nth(1).Bytes()
		default:
			return "bad"
		}
		return c13Abv(ty, v)
	}
	return "bad"
}

func c13Abv(ty uint8, v interface{}) string {
	prefix := []byte{0xaa, 0xbb}
	out, err := mysql.AppendBinaryValue(append([]byte{}, prefix...), ty, v)
	if err != nil {
		return "(err " + c13ErrKind(err) + ")"
	}
	if len(out) < 2 || out[0] != 0xaa || out[1] != 0xbb {
		return "(prefix-changed)"
	}
	return "(ok " + core.Hex(out[2:]).String() + ")"
}

// c13PatCell is BinRowBig.patCell: byte i is (i*7+3)%256 xor (i/512)%256.
func c13PatCell(n int) []byte {
	b := make([]byte, n)
	for i := range b {
		b[i] = byte((i*7+3)%256) ^ byte((i/512)%256)
	}
	return b
}

// execC13Big converts a row of one pattern cell of n bytes and the sentinel
// INT 7 and reports the binary row as (bytes before the cell, length, FNV-1a
// hash, bytes after it); the length prefix is read by a reader of its own.
func execC13Big(ty uint8, flag uint16, n int) string {
	fields := []*mysql.Field{{Type: ty, Flag: flag}, {Type: mysql.TypeLong}}
	cell := c13PatCell(n)
	row := c13AppendCell(make([]byte, 0, n+16), cell)
	row = append(row, 1, '7')
	v, err := mysql.RowData(row).ParseText(fields)
	if err != nil {
		return "(err " + c13ErrKind(err) + ")"
	}
	res := &mysql.Result{Resultset: &mysql.Resultset{Fields: fields, Values: [][]interface{}{v}}}
	if err := res.BuildBinaryResultSet(); err != nil {
		return "(err " + c13ErrKind(err) + ")"
	}
	if len(res.RowDatas) != 1 {
		return "(row-count-differs)"
	}
	out := []byte(res.RowDatas[0])
	if len(out) < 3 {
		return "(garbled)"
	}
	pl, l := 0, 0
	switch c := out[2]; {
	case c < 251:
		pl, l = 1, int(c)
	case c == 0xfc && len(out) >= 5:
		pl, l = 3, int(out[3])|int(out[4])<<8
	case c == 0xfd && len(out) >= 6:
		pl, l = 4, int(out[3])|int(out[4])<<8|int(out[5])<<16
	case c == 0xfe && len(out) >= 11:
		pl = 9
		for k := 0; k < 8; k++ {
			l |= int(out[3+k]) << (8 * uint(k))
		}
	default:
		return "(garbled)"
	}
	if l < 0 || 2+pl+l > len(out) || len(out)-(2+pl+l) > 64 {
		return "(garbled)"
	}
	h := uint64(14695981039346656037)
	for _, b := range out[2+pl : 2+pl+l] {
		h = (h ^ uint64(b)) * 1099511628211
	}
	return fmt.Sprintf("(ok %s %d %d %s)", core.Hex(out[:2+pl]).String(), l, h, core.Hex(out[2+pl+l:]).String())
}

// ---- generator ----

var c13Types = []uint8{0, 1, 2, 3, 4, 5, 6, 7, 8, 9, 10, 11, 12, 13, 14, 15, 16, 0x11, 0x12, 0x13,
	0xf5, 0xf6, 0xf7, 0xf8, 0xf9, 0xfa, 0xfb, 0xfc, 0xfd, 0xfe, 0xff}

// the types AppendBinaryValue can encode
var c13Supported = []uint8{1, 2, 3, 4, 5, 7, 8, 9, 10, 11, 12, 13, 14, 15, 16, 0xf5, 0xf6, 0xf7, 0xf8, 0xf9, 0xfa, 0xfb, 0xfc, 0xfd, 0xfe}

func c13TypeName(t uint8) string {
	names := map[uint8]string{0: "decimal", 1: "tiny", 2: "short", 3: "long", 4: "float", 5: "double", 6: "null", 7: "timestamp",
		8: "longlong", 9: "int24", 10: "date", 11: "time", 12: "datetime", 13: "year", 14: "newdate", 15: "varchar", 16: "bit",
		0xf5: "json", 0xf6: "newdecimal", 0xf7: "enum", 0xf8: "set", 0xf9: "tinyblob", 0xfa: "mediumblob", 0xfb: "longblob",
		0xfc: "blob", 0xfd: "varstring", 0xfe: "string", 0xff: "geometry"}
	if n, ok := names[t]; ok {
		return n
	}
	return "unknown"
}

func c13IntBounds(t uint8) (w uint) {
	switch t {
	case 1:
		return 1
	case 2, 13:
		return 2
	case 3, 9:
		return 4
	case 8:
		return 8
	}
	return 0
}

var c13BadInts = []string{"", "+5", "abc", "1.5", " 1", "1 ", "-", "+", "1_0", "0x10", "9223372036854775808", "-9223372036854775809",
	"18446744073709551615", "18446744073709551616", "-9223372036854775808", "9223372036854775807", "99999999999999999999999", "--1"}

func c13IntValues(g *core.Gen, t uint8) []string {
	w := c13IntBounds(t)
	var vs []string
	add := func(s string) { vs = append(vs, s) }
	for _, s := range []string{"0", "1", "-1", "-0", "007", "-007", "127", "128", "255", "256", "-128", "-129"} {
		add(s)
	}
	bits := 8 * w
	if t == 9 { // MEDIUMINT travels in 4 bytes but ranges over 3
		for _, s := range []string{"8388607", "8388608", "-8388608", "-8388609", "16777215", "16777216"} {
			add(s)
		}
	}
	if t == 13 {
		for _, s := range []string{"1901", "2155", "2024", "0000", "70", "69"} {
			add(s)
		}
	}
	if bits == 64 {
		for _, s := range []string{"9223372036854775807", "9223372036854775808", "-9223372036854775808", "-9223372036854775809", "18446744073709551615", "18446744073709551616", "9223372036854775806", "18446744073709551614"} {
			add(s)
		}
	} else {
		smax := int64(1)<<(bits-1) - 1
		umax := int64(1)<<bits - 1
		for _, n := range []int64{smax, smax + 1, smax - 1, -smax - 1, -smax - 2, -smax, umax, umax + 1, umax - 1} {
			add(strconv.FormatInt(n, 10))
		}
	}
	return vs
}

func c13RandInt(g *core.Gen, t uint8, unsigned bool) string {
	w := c13IntBounds(t)
	bits := 8 * w
	if g.Intn(12) == 0 {
		return core.Pick(g, c13BadInts)
	}
	if unsigned {
		u := g.Rand.Uint64()
		if bits < 64 {
			u >>= (64 - bits)
		}
		u >>= uint(g.Intn(int(bits)))
		return strconv.FormatUint(u, 10)
	}
	n := int64(g.Rand.Uint64())
	if bits < 64 {
		n >>= (64 - bits)
	}
	n >>= uint(g.Intn(int(bits)))
	return strconv.FormatInt(n, 10)
}

var c13Floats = []string{"0", "-0", "1", "-1", "1.5", "0.1", "123.456", "123456.789", "3.4028235e38", "3.4028236e38", "1e39", "-1e39", "1e308", "1.7976931348623157e308",
	"1e309", "4.9e-324", "1e-400", "1.17549435e-38", "1e-46", "16777217", "0.30000000000000004", "abc", "", "nan", "inf", "-Inf", "1e", "0x1p-2", "1_000", " 1", "+1.5", ".5", "5."}

var c13Decimals = []string{"0", "0.0", "-0.00", "-0", "1.50", "1.5", "007.50", "100", "100.00", "-12345678901234567890.123456789012345678901234567890",
	"99999999999999999.9", "999999999999999999", "9999999999999999999", "-99999999999999999", "-999999999999999999", "0.000001", "0.100000", "10.0100", "123456789.987654321",
	"99999999999999999999999999999999999.999999999999999999999999999999", "0.000000000000000000000000000001", "-0.5", "-0.05",
	"1e3", "1.5E-2", "1E+2", "-1.5e1", "0e0", "1e-3", "12.5e1", "-.5", ".5", "5.", ".", "-", "", "+1.5", "+.5", "1.2.3", "1e", "e5", "1e99999999999", "1e2147483648",
	"1e-2147483649", ".-5", ".+5", "1.-5", "abc", "1 ", " 1", "1,5", "--1", "-+1", "1e1e1", "12345678901234567-", "1234567890123456789x"}

var c13Dates = []string{"2024-12-23", "0000-00-00", "2020-00-00", "2020-01-00", "2020-00-01", "0000-00-01", "0000-01-00", "2021-02-29", "2020-02-29", "1900-02-29", "2000-02-29",
	"2021-02-30", "2021-04-31", "2021-04-30", "2021-12-31", "1000-01-01", "9999-12-31", "0000-01-01", "2020-13-01", "2020-12-32", "2020-99-99", "2020-1-1", "2020-01-1", "invalid-date", "2020-01-02 00:00:00",
	"", "20200102", "2020/01/02", "2020-01-02 ", " 2020-01-02", "+020-01-02", "-020-01-02", "2020-01-0a", "20a0-01-02", "2020-0a-02", "2020-01-02x", "2020-01:02", "2020:01-02", "12020-01-02"}

var c13Datetimes = []string{"2024-12-23 10:20:30", "0000-00-00 00:00:00", "0000-00-00 00:00:00.000000", "0000-00-00 00:00:01",
	"0000-00-00 00:00:00.000001", "0000-00-00 00:00:00.5", "0000-00-00 00:00:00.999999", "0000-00-00 00:00:00.0", "0000-00-00 23:59:59", "0000-00-00 00:01:00", "0000-00-00 01:00:00",
	"0000-00-01 00:00:00", "0000-01-00 00:00:00", "0001-00-00 00:00:00", "2021-02-30 10:11:12.5", "2021-02-30 10:11:12.123456", "2020-00-00 00:00:00.1", "2021-13-01 00:00:00", "2021-00-45 00:00:00",
	"2021-02-30 10:11:12.1234567", "2021-02-30 10:11:12.", "2021-02-30 10:11:12,5", "2021-02-30  10:11:12", "2021-02-30 24:00:00", "2021-02-30 10:60:00", "2021-02-30 10:11:60", "2021-02-30 1:11:12", "2021-02-3 10:11:12", "2021-02-30T10:11:12", "2020-01-02 03:04:05.1", "2020-01-02 03:04:05.12", "2020-01-02 03:04:05.123",
	"2020-01-02 03:04:05.1234", "2020-01-02 03:04:05.12345", "2020-01-02 03:04:05.123456", "2020-01-02 03:04:05.000001", "2020-01-02 03:04:05.100000", "2020-01-02 03:04:05.000000",
	"2020-01-02 03:04:05.1234567", "2020-01-02 03:04:05.12345678", "2020-01-02 03:04:05.123456789", "2020-01-02 03:04:05.1234567899", "2020-01-02 03:04:05.12345678901234567890",
	"2020-01-02 03:04:05.9999999", "2020-00-00 00:00:00", "2020-01-00 00:00:00", "2021-02-29 00:00:00", "2020-02-29 23:59:59", "2020-01-02 24:00:00", "2020-01-02 23:60:00", "2020-01-02 23:59:60",
	"2020-01-02 23:59:59", "2020-01-02 00:00:00", "2020-01-02 3:04:05", "2020-01-02 03:4:05", "2020-01-02 03:04:5", "2020-01-02  03:04:05", "2020-01-02    03:04:05", "2020-01-0203:04:05", "2020-01-02T03:04:05",
	"2020-01-02 03:04:05,5", "2020-01-02 03:04:05.", "2020-01-02 03:04:05,", "2020-01-02 03:04:05 ", "2020-01-02 03:04:05.5x", "2020-01-02 03:04:05x", "2020-01-02", "2020-01-02 ", "2020-01-02 03", "2020-01-02 03:04",
	"1970-01-01 00:00:00", "9999-12-31 23:59:59.999999", "0000-01-01 00:00:00", "1000-01-01 00:00:00", "2020-13-01 00:00:00", "2020-12-32 00:00:00", "2021-04-31 00:00:00", "", "abc", "2020-01-02 03:04:05.-5", "2020-01-02 -3:04:05"}

var c13Times = []string{"00:00:00", "-00:00:00", "838:59:59", "-838:59:59", "838:59:59.999999", "-838:59:59.999999", "-838:59:59.000001", "839:00:00", "24:00:00", "25:00:00", "-24:00:00", "-25:00:00",
	"48:00:00", "23:59:59", "-23:59:59", "00:00:01", "-00:00:01", "00:01:00", "-00:01:00", "01:00:00", "-01:00:00", "00:00:00.5", "-00:00:00.5", "00:00:00.000000", "00:00:00.000001", "-00:00:00.000001",
	"00:00:00.999999", "00:00:00.1234567", "00:00:00.1234560", "00:00:00.9999991", "00:00:00.1234560000", "00:00:00.12345600001", "1:02:03", "001:02:03", "0000838:59:59", "+1:00:00", "100:00", "00:60:00", "00:00:60",
	"00:5:00", "00:00:5", "abc", "", ":", "::", "-:00:00", "-9223372036854775808:00:00", "9223372036854775807:00:00", "-9223372036854775807:00:00", "9223372036854775808:00:00", "103079215104:00:00", "103079215105:00:01",
	"12:34:56", "-12:34:56.789", "12:34:56,5", "12:34:56.", "12:34:56 ", " 12:34:56", "12 :34:56", "12:34:56.5x", "1.1:00:00", "00:1.5:00", "00:-01:00", "00:00:-01", "00:00:00.-01", "-0:00:01", "- 1:00:00", "1_0:00:00"}

func c13RandDigits(g *core.Gen, n int) string {
	b := make([]byte, n)
	for i := range b {
		b[i] = byte('0' + g.Intn(10))
	}
	return string(b)
}

func c13RandDecimal(g *core.Gen) string {
	s := ""
	if g.Intn(3) == 0 {
		s = "-"
	}
	ip := c13RandDigits(g, 1+g.Intn(core.Pick(g, []int{3, 10, 20, 40})))
	if g.Intn(3) != 0 {
		ip = strings.TrimLeft(ip, "0")
		if ip == "" {
			ip = "0"
		}
	}
	s += ip
	if g.Intn(4) != 0 {
		f := c13RandDigits(g, 1+g.Intn(core.Pick(g, []int{2, 6, 30})))
		if g.Intn(3) == 0 {
			f += strings.Repeat("0", 1+g.Intn(4))
		}
		s += "." + f
	}
	return s
}

func c13RandFrac(g *core.Gen) string {
	switch g.Intn(4) {
	case 0:
		return ""
	case 1:
		return "." + c13RandDigits(g, 6)
	default:
		return "." + c13RandDigits(g, 1+g.Intn(6))
	}
}

func c13RandDate(g *core.Gen) string {
	y := core.Pick(g, []int{0, 1, 999, 1000, 1970, 2000, 2020, 2021, 2024, 2100, 9999, g.Intn(10000)})
	m := 1 + g.Intn(12)
	d := 1 + g.Intn(28)
	switch g.Intn(10) {
	case 0:
		d = 29 + g.Intn(3)
	case 1:
		m = 0
	case 2:
		d = 0
	case 3:
		y, m, d = 0, 0, 0
	case 4:
		m, d = 0, 0
	}
	return fmt.Sprintf("%04d-%02d-%02d", y, m, d)
}

func c13RandClock(g *core.Gen) string {
	if g.Intn(4) == 0 {
		return "00:00:00"
	}
	return fmt.Sprintf("%02d:%02d:%02d", g.Intn(24), g.Intn(60), g.Intn(60))
}

func c13RandTime(g *core.Gen) string {
	s := ""
	if g.Intn(3) == 0 {
		s = "-"
	}
	h := core.Pick(g, []int{0, 1, 23, 24, 25, 47, 48, 100, 837, 838, g.Intn(839)})
	return s + fmt.Sprintf("%02d:%02d:%02d", h, g.Intn(60), g.Intn(60)) + c13RandFrac(g)
}

func c13RandBytes(g *core.Gen) []byte {
	n := core.Pick(g, []int{0, 1, 2, 3, 5, 10, 30, g.Intn(40)})
	b := make([]byte, n)
	switch g.Intn(3) {
	case 0:
		g.Rand.Read(b)
	case 1:
		for i := range b {
			b[i] = core.Pick(g, []byte{0, 0xfb, 0xfc, 0xfe, 0xff, 'a', '0'})
		}
	default:
		for i := range b {
			b[i] = byte('a' + g.Intn(26))
		}
	}
	return b
}

// c13Boundary lists the boundary cells of a column type.
func c13Boundary(g *core.Gen, t uint8) []string {
	switch t {
	case 1, 2, 3, 8, 9, 13:
		return append(c13IntValues(g, t), c13BadInts...)
	case 4, 5:
		return c13Floats
	case 0xf6, 0:
		return c13Decimals
	case 10, 14:
		return c13Dates
	case 7, 12:
		return c13Datetimes
	case 11:
		return c13Times
	}
	vs := []string{"", "a", "a,b", "\x00", "\xfb", "\xff\xfe", "2020-01-02", "{}", "{\"a\": [1, 2]}", "\x01", "\x00\x01\x02\x03\x04\x05\x06\x07\x08"}
	for _, n := range []int{250, 251, 252, 255, 256} {
		vs = append(vs, strings.Repeat("x", n))
	}
	return vs
}

var (
	c13ReInt      = regexp.MustCompile(`^-?[0-9]+$`)
	c13ReDecimal  = regexp.MustCompile(`^-?[0-9]+(\.[0-9]+)?$`)
	c13ReDate     = regexp.MustCompile(`^[0-9]{4}-[0-9]{2}-[0-9]{2}$`)
	c13ReDatetime = regexp.MustCompile(`^[0-9]{4}-[0-9]{2}-[0-9]{2} [0-9]{2}:[0-9]{2}:[0-9]{2}(\.[0-9]{1,6})?$`)
	c13ReTime     = regexp.MustCompile(`^-?[0-9]{1,4}:[0-9]{2}:[0-9]{2}(\.[0-9]{1,6})?$`)
)

// c13Plausible tells (roughly) whether a text is a spelling a MySQL server
// produces for the column type; used only to keep most generated rows valid.
func c13Plausible(t uint8, flag uint16, v string) bool {
	switch t {
	case 1, 2, 3, 8, 9, 13:
		if !c13ReInt.MatchString(v) {
			return false
		}
		bits := 8 * c13IntBounds(t)
		if flag&32 != 0 {
			_, err := strconv.ParseUint(v, 10, int(bits))
			return err == nil
		}
		_, err := strconv.ParseInt(v, 10, int(bits))
		return err == nil
	case 4, 5:
		_, err := strconv.ParseFloat(v, 64)
		return err == nil
	case 0xf6:
		return c13ReDecimal.MatchString(v)
	case 10, 14:
		return c13ReDate.MatchString(v)
	case 7, 12:
		if !c13ReDatetime.MatchString(v) {
			return false
		}
		_, err := time.Parse("2006-01-02 15:04:05", v)
		return err == nil || v == "0000-00-00 00:00:00"
	case 11:
		return c13ReTime.MatchString(v) && v[len(v)-1] != ':' && !strings.Contains(v, ":6") && !strings.Contains(v, ":7") && !strings.Contains(v, ":8") && !strings.Contains(v, ":9")
	case 0, 6, 0x11, 0x12, 0x13, 0xff:
		return false
	}
	return true
}

// c13Cell draws one cell text for a column: mostly plausible values.
func c13Cell(g *core.Gen, t uint8, flag uint16) []byte {
	for try := 0; ; try++ {
		c := c13Cell1(g, t, flag)
		if try >= 6 || g.Intn(12) == 0 || c13Plausible(t, flag, string(c)) {
			return c
		}
	}
}

func c13Cell1(g *core.Gen, t uint8, flag uint16) []byte {
	if g.Intn(3) == 0 {
		return []byte(core.Pick(g, c13Boundary(g, t)))
	}
	switch t {
	case 1, 2, 3, 8, 9, 13:
		return []byte(c13RandInt(g, t, flag&32 != 0))
	case 4, 5:
		if g.Intn(2) == 0 {
			return []byte(strconv.FormatFloat(math.Float64frombits(g.Rand.Uint64()), 'g', -1, 64))
		}
		return []byte(c13RandDecimal(g))
	case 0xf6, 0:
		return []byte(c13RandDecimal(g))
	case 10, 14:
		return []byte(c13RandDate(g))
	case 7, 12:
		return []byte(c13RandDate(g) + " " + c13RandClock(g) + c13RandFrac(g))
	case 11:
		return []byte(c13RandTime(g))
	}
	return c13RandBytes(g)
}

func c13Flag(g *core.Gen) uint16 {
	switch g.Intn(4) {
	case 0:
		return 0
	case 1:
		return 32
	case 2:
		return uint16(g.Intn(1<<16)) &^ 32
	}
	return uint16(g.Intn(1<<16)) | 32
}

type c13Col struct {
	t    uint8
	flag uint16
}

// c13FloatTable computes the graph of the opaque float functions on the float
// cells of the rows (walked with the repository's own cell reader).
func c13FloatTable(cols []c13Col, rows [][]byte) []core.Sexp {
	seen := map[string]bool{}
	var ft []core.Sexp
	for _, r := range rows {
		pos := 0
		for _, c := range cols {
			v, p, isNull, ok := mysql.ReadLenEncStringAsBytes(r, pos)
			if !ok {
				break
			}
			pos = p
			if isNull || (c.t != 4 && c.t != 5) || seen[string(v)] {
				continue
			}
			seen[string(v)] = true
			f, err := strconv.ParseFloat(string(v), 64)
			if err != nil {
				ft = append(ft, core.L(core.Hex(v), core.A("err")))
			} else {
				ft = append(ft, core.L(core.Hex(v), core.U(math.Float64bits(f)), core.U(uint64(math.Float32bits(float32(f))))))
			}
		}
	}
	return ft
}

// c13Emit builds the request line: the float table is computed from the final
// row bytes.
func c13Emit(g *core.Gen, cols []c13Col, rows [][]byte, tags ...string) {
	fs := make([]core.Sexp, len(cols))
	for i, c := range cols {
		fs[i] = core.L(core.U(uint64(c.t)), core.U(uint64(c.flag)))
	}
	xs := []core.Sexp{core.A("rows"), core.L(fs...), core.L(c13FloatTable(cols, rows)...)}
	for _, r := range rows {
		xs = append(xs, core.Hex(r))
	}
	g.Emit(core.L(xs...), tags...)
}

// c13AppendCell appends a text-protocol cell as a MySQL server encodes it (an
// encoder of the harness' own: the inputs must not depend on the code under test).
func c13AppendCell(row, c []byte) []byte {
	n := uint64(len(c))
	switch {
	case n < 251:
		row = append(row, byte(n))
	case n < 1<<16:
		row = append(row, 0xfc, byte(n), byte(n>>8))
	case n < 1<<24:
		row = append(row, 0xfd, byte(n), byte(n>>8), byte(n>>16))
	default:
		row = append(row, 0xfe, byte(n), byte(n>>8), byte(n>>16), byte(n>>24), byte(n>>32), byte(n>>40), byte(n>>48), byte(n>>56))
	}
	return append(row, c...)
}

func c13Row(cells [][]byte) []byte {
	var row []byte
	for _, c := range cells {
		if c == nil {
			row = append(row, 0xfb)
		} else {
			row = c13AppendCell(row, c)
		}
	}
	return row
}

func genC13(g *core.Gen) {
	sentinel := c13Col{3, 0}
	// 1. every type × both signednesses × every boundary cell, followed by a sentinel INT column
	for _, t := range c13Types {
		for _, flag := range []uint16{0, 32, uint16(g.Intn(1<<16)) &^ 32, uint16(g.Intn(1<<16)) | 32} {
			for _, v := range c13Boundary(g, t) {
				cols := []c13Col{{t, flag}, sentinel}
				c13Emit(g, cols, [][]byte{c13Row([][]byte{[]byte(v), []byte("7")})}, "boundary", "type:"+c13TypeName(t))
			}
			c13Emit(g, []c13Col{{t, flag}, sentinel}, [][]byte{c13Row([][]byte{nil, []byte("-7")})}, "boundary-null", "type:"+c13TypeName(t))
		}
	}
	// 2. byte strings of every size class, NUL and non-UTF-8 bytes included, in every byte-string type
	bytesTypes := []uint8{0x0f, 0x10, 0xf5, 0xf7, 0xf8, 0xf9, 0xfa, 0xfb, 0xfc, 0xfd, 0xfe, 0xff}
	for _, t := range bytesTypes {
		for _, n := range []int{0, 1, 250, 251, 252, 255, 256} {
			c13Emit(g, []c13Col{{t, c13Flag(g)}, sentinel}, [][]byte{c13Row([][]byte{c13PatCell(n), []byte("7")})}, "size-class", "type:"+c13TypeName(t))
		}
	}
	longs := []int{65535, 65536}
	longTypes := []uint8{0xfc, 0xfd, core.Pick(g, bytesTypes), core.Pick(g, bytesTypes)}
	if g.Tier != "quick" {
		longs = append(longs, 65537, 70000, 300000)
		longTypes = bytesTypes
	}
	for _, t := range longTypes {
		for _, n := range longs {
			c13Emit(g, []c13Col{{t, 0}, sentinel}, [][]byte{c13Row([][]byte{c13PatCell(n), []byte("7")})}, "long-string")
		}
	}
	// 2b. the same through theorem big_cell_row (no list of N bytes in the driver): up to the 16 MiB class
	bigs := []int{0, 1, 250, 251, 252, 65535, 65536, 65537, 16777215, 16777216}
	if g.Tier != "quick" {
		bigs = append(bigs, 16777217, 20000000, 33554432)
	}
	for _, n := range bigs {
		ts := []uint8{0xfc, core.Pick(g, bytesTypes)}
		if n < 1<<20 || g.Tier != "quick" {
			ts = bytesTypes
		}
		for _, t := range ts {
			g.Emit(core.L(core.A("big"), core.U(uint64(t)), core.U(uint64(c13Flag(g))), core.U(uint64(n))), "big", "type:"+c13TypeName(t))
		}
	}
	// 3. NULL in every position, for column counts around the bitmap byte boundaries
	for _, n := range []int{0, 1, 2, 5, 6, 7, 8, 13, 14, 15, 16, 22, 23} {
		cols := make([]c13Col, n)
		for i := range cols {
			cols[i] = c13Col{core.Pick(g, []uint8{1, 3, 8, 0xfd, 10, 12, 11, 0xf6, 0xf7}), c13Flag(g)}
		}
		mk := func(isNull func(i int) bool) {
			cells := make([][]byte, n)
			for i := range cells {
				if !isNull(i) {
					cells[i] = c13Cell(g, cols[i].t, cols[i].flag)
				}
			}
			c13Emit(g, cols, [][]byte{c13Row(cells)}, "null-sweep")
		}
		mk(func(int) bool { return false })
		mk(func(int) bool { return true })
		for k := 0; k < n; k++ {
			k := k
			mk(func(i int) bool { return i == k })
			mk(func(i int) bool { return i != k })
		}
	}
	// 4. random resultsets
	n := g.Scale(2500, 12000)
	for i := 0; i < n; i++ {
		nc := core.Pick(g, []int{1, 1, 2, 2, 3, 3, 4, 5, 6, 7, 8, 9, 12, 1 + g.Intn(24)})
		cols := make([]c13Col, nc)
		for j := range cols {
			t := core.Pick(g, c13Supported)
			if g.Intn(30) == 0 {
				t = core.Pick(g, c13Types)
			} else if g.Intn(60) == 0 {
				t = uint8(g.Intn(256))
			}
			cols[j] = c13Col{t, c13Flag(g)}
		}
		nr := core.Pick(g, []int{1, 1, 1, 2, 3})
		if g.Intn(60) == 0 {
			nr = 0
		}
		rows := make([][]byte, nr)
		malformed := g.Intn(7) == 0
		for r := range rows {
			cells := make([][]byte, nc)
			for j := range cells {
				if g.Intn(8) != 0 {
					cells[j] = c13Cell(g, cols[j].t, cols[j].flag)
				}
			}
			row := c13Row(cells)
			if malformed && g.Intn(2) == 0 {
				row = c13Mangle(g, row, cells)
			}
			rows[r] = row
		}
		tag := "random"
		if malformed {
			tag = "malformed"
		}
		c13Emit(g, cols, rows, tag, fmt.Sprintf("cols:%d", min(nc, 10)))
	}
	// 5. AppendBinaryValue on every kind of dynamic value × every field type
	var govals []core.Sexp
	govals = append(govals, core.L(core.A("nil")), core.L(core.A("other")))
	for _, v := range []int64{0, 1, -1, 127, 128, -128, -129, 255, 256, 32767, 32768, -32768, 65535, 65536, 1<<31 - 1, 1 << 31, -1 << 31, 1<<32 - 1, 1 << 32, math.MaxInt64, math.MinInt64, 0x0123456789abcdef} {
		govals = append(govals, core.L(core.A("i64"), core.I(v)))
	}
	for _, v := range []uint64{0, 1, 255, 256, 65535, 65536, 1<<32 - 1, 1 << 32, 1 << 63, math.MaxUint64, 0xfedcba9876543210} {
		govals = append(govals, core.L(core.A("u64"), core.U(v)))
	}
	for _, f := range []float64{0, math.Copysign(0, -1), 1.5, 123.456, -1e39, math.MaxFloat64, math.SmallestNonzeroFloat64, math.Inf(1), math.NaN(), float64(math.Float32frombits(0x42F6E979))} {
		govals = append(govals, core.L(core.A("f64"), core.U(math.Float64bits(f)), core.U(uint64(math.Float32bits(float32(f)))), core.Text(strconv.FormatFloat(f, 'f', -1, 64))))
	}
	for _, d := range []string{"0", "-0.0", "1.50", "007.50", "1e3", "1.5E-2", "-12345678901234567890.12345", "0.000001", "-.5", ".-5"} {
		govals = append(govals, core.L(core.A("dec"), core.Text(d)))
	}
	strs := []string{"", "a", "hello", "12", "1234", "12345678", "123456789", "0000-00-00 00:00:00", "2024-12-23 10:20:30", "2024-12-23 10:20:30.5", "2024-12-23", "2020-00-00", "0000-00-00", "invalid-date",
		"12:34:56", "-838:59:59.999999", "00:00:00", "invalid-duration", strings.Repeat("y", 251)}
	for _, s := range strs {
		govals = append(govals, core.L(core.A("str"), core.Text(s)))
		govals = append(govals, core.L(core.A("bytes"), core.Text(s)))
	}
	for _, t := range c13Types {
		for _, v := range govals {
			g.Emit(core.L(core.A("abv"), core.U(uint64(t)), v), "abv", "abv:"+v.Head())
		}
	}
	for i := 0; i < g.Scale(200, 2000); i++ {
		t := uint8(g.Intn(256))
		g.Emit(core.L(core.A("abv"), core.U(uint64(t)), core.Pick(g, govals)), "abv", "abv-random-type")
	}
	// 6. whole COM_STMT_EXECUTE results over the wire
	genC13Wire(g)
}

// c13Mangle damages a well-formed text row.
func c13Mangle(g *core.Gen, row []byte, cells [][]byte) []byte {
	switch g.Intn(7) {
	case 0: // truncate
		if len(row) > 0 {
			return row[:g.Intn(len(row))]
		}
	case 1: // trailing bytes
		extra := make([]byte, 1+g.Intn(3))
		g.Rand.Read(extra)
		return append(append([]byte{}, row...), extra...)
	case 2: // non-minimal (but legal) length prefixes
		var out []byte
		for _, c := range cells {
			if c == nil {
				out = append(out, 0xfb)
				continue
			}
			switch g.Intn(3) {
			case 0:
				out = append(out, 0xfc, byte(len(c)), byte(len(c)>>8))
			case 1:
				out = append(out, 0xfd, byte(len(c)), byte(len(c)>>8), byte(len(c)>>16))
			default:
				out = append(out, 0xfe, byte(len(c)), byte(len(c)>>8), byte(len(c)>>16), 0, 0, 0, 0, 0)
			}
			out = append(out, c...)
		}
		return out
	case 3: // a wrong first byte
		if len(row) > 0 {
			out := append([]byte{}, row...)
			out[0] = core.Pick(g, []byte{0xff, 0xfb, 0xfc, 0xfd, 0xfe, 0, 1, 200})
			return out
		}
	case 4: // flip one byte
		if len(row) > 0 {
			out := append([]byte{}, row...)
			out[g.Intn(len(out))] ^= byte(1 << uint(g.Intn(8)))
			return out
		}
	case 5:
		return []byte{}
	default: // an oversized length
		return append(append([]byte{}, row...), 0xfe, 0, 0, 0, 0, 0, 0, 0, core.Pick(g, []byte{0, 0x7f, 0x80}))
	}
	return row
}
