package props

import (
	"context"
	"errors"
	"fmt"
	"strconv"
	"strings"
	"sync"
	"time"

	"gaeaverif/harness/core"

	"github.com/XiaoMi/Gaea/log"
	"github.com/XiaoMi/Gaea/util"
)

// c24Quiet swallows the pool's log lines (factory failures are logged).
type c24Quiet struct{}

func (c24Quiet) SetLevel(name, level string) error            { return nil }
func (c24Quiet) Debug(string, ...interface{}) error           { return nil }
func (c24Quiet) Trace(string, ...interface{}) error           { return nil }
func (c24Quiet) Notice(string, ...interface{}) error          { return nil }
func (c24Quiet) Warn(string, ...interface{}) error            { return nil }
func (c24Quiet) Fatal(string, ...interface{}) error           { return nil }
func (c24Quiet) Debugx(string, string, ...interface{}) error  { return nil }
func (c24Quiet) Tracex(string, string, ...interface{}) error  { return nil }
func (c24Quiet) Noticex(string, string, ...interface{}) error { return nil }
func (c24Quiet) Warnx(string, string, ...interface{}) error   { return nil }
func (c24Quiet) Fatalx(string, string, ...interface{}) error  { return nil }
func (c24Quiet) Close()                                       {}
func (c24Quiet) Dropped(int) uint64                           { return 0 }

var c24LogOnce sync.Once

// C24 — util.ResourcePool driven step by step through its verifStep points.
//
//	(case CAP MAX DYN EXPIRE (threads (OP…) …) (sched A …))
//
// One goroutine per thread runs its operations on a real ResourcePool; the
// hook installed in util.VerifStepHook parks every goroutine at each step
// point and a scheduler lets exactly one proceed to its next step point,
// chosen by the schedule with the same rule as Drv/C24.lean (`candidates`).
// After every step the thread's position, the resources its client holds and
// the pool's counters and channel length are recorded.

type c24Res struct{ id int }

func (*c24Res) Close() {}

type c24Op struct {
	kind string
	arg  int
}

type c24Thread struct {
	id     int
	prog   []c24Op
	label  string
	wake   chan struct{}
	held   []int
	res    map[int]*c24Res
	done   bool
	ev     string
	fails  int
	cancel context.CancelFunc
	curOp  string
	child  bool
}

type c24Sched struct {
	mu       sync.Mutex
	rp       *util.ResourcePool
	max      int
	threads  []*c24Thread
	current  *c24Thread
	parked   chan *c24Thread
	free     bool
	closed   bool
	idleOn   bool
	capOn    bool
	idleBusy int
	capBusy  int
	nextRes  int
}

var errC24Factory = errors.New("factory failed")

var c24Mu sync.Mutex // one schedule at a time: the step hook is a package-level variable

func c24ParseOp(s core.Sexp) c24Op {
	if s.IsAtom {
		return c24Op{kind: s.Atom}
	}
	return c24Op{kind: s.Head(), arg: int(s.Nth(1).Int())}
}

// hook is called by util.verifStep on pool goroutines.
func (sc *c24Sched) hook(label string) {
	sc.mu.Lock()
	if sc.free {
		sc.mu.Unlock()
		return
	}
	var th *c24Thread
	if label == "child:load" {
		th = &c24Thread{id: len(sc.threads), wake: make(chan struct{}), child: true, ev: "-"}
		sc.threads = append(sc.threads, th)
	} else {
		th = sc.current
	}
	th.label = label
	sc.mu.Unlock()
	sc.parked <- th
	<-th.wake
}

func (sc *c24Sched) factory() (util.Resource, error) {
	sc.mu.Lock()
	defer sc.mu.Unlock()
	th := sc.current
	if th != nil && th.fails > 0 {
		th.fails--
		return nil, errC24Factory
	}
	r := &c24Res{id: sc.nextRes}
	sc.nextRes++
	return r, nil
}

func c24PanicKind(v any, op string) string {
	msg := fmt.Sprint(v)
	switch {
	case strings.Contains(msg, "full ResourcePool"):
		return "panic-put-full"
	case strings.Contains(msg, "send on closed channel"):
		if op == "put" || op == "drop" {
			return "panic-put-closed"
		}
		return "panic-send-closed"
	case strings.Contains(msg, "close of closed channel"):
		return "panic-close-closed"
	}
	return "panic-other"
}

// run is the body of a client/timer/admin thread.
func (sc *c24Sched) run(th *c24Thread) {
	defer func() {
		if v := recover(); v != nil {
			th.ev = c24PanicKind(v, th.curOp)
			th.label = "dead"
		} else {
			th.label = "idle"
		}
		th.done = true
		sc.mu.Lock()
		free := sc.free
		sc.mu.Unlock()
		if !free {
			sc.parked <- th
		}
	}()
	rp := sc.rp
	for _, op := range th.prog {
		sc.hook("idle")
		sc.mu.Lock()
		free := sc.free
		sc.mu.Unlock()
		if free {
			return
		}
		th.curOp = op.kind
		switch op.kind {
		case "get":
			th.fails = op.arg
			ctx, cancel := context.WithCancel(context.Background())
			th.cancel = cancel
			r, err := rp.Get(ctx)
			cancel()
			th.cancel = nil
			switch {
			case err == nil:
				cr := r.(*c24Res)
				th.res[cr.id] = cr
				th.held = append([]int{cr.id}, th.held...)
				th.ev = fmt.Sprintf("(got %d)", cr.id)
			case err == util.ErrClosed:
				th.ev = "err-closed"
			case err == util.ErrTimeout:
				th.ev = "err-timeout"
			default:
				th.ev = "err-factory"
			}
		case "put", "drop":
			if len(th.held) == 0 {
				th.ev = "skip"
				continue
			}
			r := th.res[th.held[0]]
			th.held = th.held[1:]
			if op.kind == "put" {
				rp.Put(r)
			} else {
				rp.Put(nil)
			}
			th.ev = "ok-put"
		case "sweep":
			if !sc.idleOn {
				th.ev = "skip"
				continue
			}
			sc.idleBusy++
			rp.VerifCloseIdle()
			sc.idleBusy--
			th.ev = "ok"
		case "tick":
			if !sc.capOn {
				th.ev = "skip"
				continue
			}
			sc.capBusy++
			rp.VerifScaleIn()
			sc.capBusy--
			th.ev = "ok"
		case "setcap":
			_ = rp.SetCapacity(op.arg)
			th.ev = "ok"
		case "scale":
			_ = rp.ScaleCapacity(op.arg)
			th.ev = "ok"
		case "close":
			rp.Close()
			th.ev = "ok"
		case "age":
			rp.VerifSetScaleOutRecent(false)
			th.ev = "ok"
		default:
			panic("c24: unknown op " + op.kind)
		}
	}
}

func (sc *c24Sched) runnable(th *c24Thread) bool {
	if th.done {
		return false
	}
	n := sc.rp.VerifChanLen()
	switch th.label {
	case "so:lock", "tick:lock":
		return sc.rp.VerifLockFree()
	case "scale:lock":
		return sc.rp.VerifScalingFree()
	case "get:wait", "scale:shrink-recv":
		return n > 0 || sc.closed
	case "get:failsend", "sweep:send", "scale:grow-send":
		return n < sc.max || sc.closed
	case "close:idle":
		return sc.idleBusy == 0
	case "close:cap":
		return sc.capBusy == 0
	}
	return true
}

// await waits for n park notifications; false = a goroutine did not come back.
func (sc *c24Sched) await(n int) bool {
	for ; n > 0; n-- {
		select {
		case <-sc.parked:
		case <-time.After(3 * time.Second):
			return false
		}
	}
	return true
}

func (sc *c24Sched) record(th *c24Thread) string {
	rp := sc.rp
	held := make([]string, len(th.held))
	for i, h := range th.held {
		held[i] = strconv.Itoa(h)
	}
	return fmt.Sprintf("(%d %s %s (%s) %d %d %d %d %d %d)", th.id, th.ev, th.label, strings.Join(held, " "),
		rp.Capacity(), rp.Available(), rp.InUse(), rp.Active(), rp.VerifBaseCapacity(), rp.VerifChanLen())
}

// stepThread lets th run to its next step point. ok=false: it never arrived.
func (sc *c24Sched) stepThread(th *c24Thread, timeout bool) bool {
	label := th.label
	th.ev = "-"
	if th.child {
		// goroutines spawned by the pool have no recover of ours: a step that
		// would panic is not executed (the goroutine stays parked) but recorded.
		if sc.closed && (label == "scale:grow-send" || label == "scale:close") {
			th.ev = map[string]string{"scale:grow-send": "panic-send-closed", "scale:close": "panic-close-closed"}[label]
			th.label, th.done = "dead", true
			sc.rp.VerifFreeScaling() // what the deferred Release of the panicking ScaleCapacity would do
			return true
		}
	}
	switch label {
	case "close:idle":
		sc.idleOn = false
	case "close:cap":
		sc.capOn = false
	}
	expect := 1
	if label == "tick:todo" && sc.rp.VerifTodoLen() == 0 {
		expect = 2 // the spawned goroutine parks at child:load
	}
	if timeout && th.cancel != nil {
		th.cancel()
	}
	sc.mu.Lock()
	sc.current = th
	sc.mu.Unlock()
	if th.child && label == "child:done" {
		// <-rp.scaleInTodo, then the goroutine ends without another step point
		th.wake <- struct{}{}
		for i := 0; sc.rp.VerifTodoLen() != 0; i++ {
			if i > 3000 {
				return false
			}
			time.Sleep(time.Millisecond)
		}
		th.label, th.ev, th.done = "idle", "ok", true
		return true
	}
	th.wake <- struct{}{}
	if !sc.await(expect) {
		return false
	}
	if expect == 2 {
		th.ev = "spawn"
	}
	if label == "scale:close" && th.label != "dead" {
		sc.closed = true
	}
	if th.child && th.label == "child:done" && th.ev == "-" {
		th.ev = "ok" // ScaleCapacity returned inside the spawned goroutine
	}
	return true
}

func execC24(in core.Sexp) string {
	c24Mu.Lock()
	defer c24Mu.Unlock()
	c24LogOnce.Do(func() { log.SetGlobalLogger(c24Quiet{}) })
	capacity, maxCap := int(in.Nth(1).Int()), int(in.Nth(2).Int())
	dyn, expire := in.Nth(3).Bool(), in.Nth(4).Bool()
	sc := &c24Sched{max: maxCap, parked: make(chan *c24Thread, 64), idleOn: true, capOn: true}
	rp, err := util.NewResourcePool(sc.factory, capacity, maxCap, time.Hour)
	if err != nil {
		return "(err config)"
	}
	rp.VerifStopTimers()
	rp.SetDynamic(dyn)
	rp.VerifSetScaleOutRecent(false)
	if expire {
		rp.VerifSetIdleTimeout(time.Nanosecond)
	}
	sc.rp = rp
	for i, t := range in.Nth(5).List[1:] {
		th := &c24Thread{id: i, wake: make(chan struct{}), res: map[int]*c24Res{}, ev: "-", label: "idle"}
		for _, o := range t.List {
			th.prog = append(th.prog, c24ParseOp(o))
		}
		if len(th.prog) == 0 {
			th.done = true
		}
		sc.threads = append(sc.threads, th)
	}
	util.VerifStepHook = sc.hook
	defer func() { util.VerifStepHook = nil }()
	// start the threads one by one so that each parks at its first "idle"
	for _, th := range sc.threads {
		if th.done {
			continue
		}
		sc.current = th
		go sc.run(th)
		if !sc.await(1) {
			return "(hang start)"
		}
	}
	var out []string
	end := "sched"
	hung := false
	step := func(th *c24Thread, timeout bool) bool {
		if !sc.stepThread(th, timeout) {
			out = append(out, fmt.Sprintf("(hang %d %s)", th.id, th.label))
			end, hung = "hang", true
			return false
		}
		out = append(out, sc.record(th))
		return true
	}
	for _, a := range in.Nth(6).List[1:] {
		abs := strings.HasPrefix(a.Atom, "=")
		body := strings.TrimPrefix(a.Atom, "=")
		toEnd := abs && strings.HasSuffix(body, "!")
		body = strings.TrimSuffix(body, "!")
		tmo := strings.HasSuffix(body, "t")
		k, _ := strconv.Atoi(strings.TrimSuffix(body, "t"))
		if toEnd {
			// thread k until its operation returns, it dies or it blocks
			for fuel := 0; fuel < 64 && k < len(sc.threads); fuel++ {
				th := sc.threads[k]
				if !sc.runnable(th) || !step(th, false) {
					break
				}
				if th.label == "idle" || th.label == "dead" {
					break
				}
			}
			if hung {
				break
			}
			continue
		}
		var cands []*c24Thread
		var isRun []bool
		for _, th := range sc.threads {
			if abs && th.id != k {
				continue
			}
			r := sc.runnable(th)
			if r || (tmo && !th.done && th.label == "get:wait") {
				cands = append(cands, th)
				isRun = append(isRun, r)
			}
		}
		if len(cands) == 0 {
			if abs {
				continue
			}
			end = "stuck"
			break
		}
		th := cands[k%len(cands)]
		if !step(th, !isRun[k%len(cands)]) {
			break
		}
	}
	all := true
	for _, th := range sc.threads {
		all = all && th.done
	}
	if all && end != "hang" {
		end = "done"
	}
	sc.unwind()
	return "(trace " + strings.Join(append(out, "(end "+end+")"), " ") + ")"
}

// unwind lets the remaining goroutines run freely to their end (children of
// the pool stay parked: they have no recover of ours).
func (sc *c24Sched) unwind() {
	sc.mu.Lock()
	sc.free = true
	sc.mu.Unlock()
	pending := 0
	parkedChild := false
	for _, th := range sc.threads {
		if th.child && !th.done {
			parkedChild = true
		}
		if th.done || th.child {
			continue
		}
		pending++
		if th.cancel != nil {
			th.cancel()
		}
		close(th.wake)
	}
	if pending == 0 {
		return
	}
	deadline := time.Now().Add(200 * time.Millisecond)
	for time.Now().Before(deadline) {
		left := 0
		for _, th := range sc.threads {
			if !th.done && !th.child {
				left++
			}
		}
		if left == 0 {
			return
		}
		if !sc.rp.VerifUnblock() {
			sc.rp.VerifDrain()
		}
		if parkedChild {
			sc.rp.VerifFreeScaling() // a parked goroutine of the pool may hold the semaphore others wait for
		}
		time.Sleep(200 * time.Microsecond)
	}
}

func c24Case(capacity, maxCap int, dyn, expire bool, progs [][]string, sched []string) core.Sexp {
	ths := []core.Sexp{core.A("threads")}
	for _, p := range progs {
		var ops []core.Sexp
		for _, o := range p {
			ops = append(ops, core.MustParse(o))
		}
		ths = append(ths, core.L(ops...))
	}
	sc := []core.Sexp{core.A("sched")}
	for _, s := range sched {
		sc = append(sc, core.A(s))
	}
	return core.L(core.A("case"), core.I(int64(capacity)), core.I(int64(maxCap)), core.B(dyn), core.B(expire), core.L(ths...), core.L(sc...))
}

// c24Admin are the non-client operation lists a case may race with the clients.
var c24Admin = [][]string{
	{"sweep"}, {"sweep", "sweep"}, {"close"}, {"age", "tick"}, {"age", "tick", "age", "tick"},
	{"(setcap 1)"}, {"(setcap 2)"}, {"(setcap 3)"}, {"(setcap 0)", "age", "tick"},
	{"(scale 1)"}, {"(scale 2)"}, {"(scale 3)"}, {"(scale 0)"}, {"tick"}, {"close", "close"},
}

func genC24(g *core.Gen) {
	clientProg := func(n int) []string {
		var p []string
		for i := 0; i < n; i++ {
			switch g.Intn(10) {
			case 0, 1, 2, 3:
				p = append(p, core.Pick(g, []string{"(get 0)", "(get 0)", "(get 0)", "(get 1)", "(get 3)"}))
			case 4, 5, 6:
				p = append(p, "put")
			case 7:
				p = append(p, "drop")
			default:
				p = append(p, "(get 0)", "put")
			}
		}
		return p
	}
	// family 1: candidate-relative random schedules (bursts and uniform picks, some timeouts)
	relSched := func(n, width int) []string {
		var s []string
		for len(s) < n {
			k := g.Intn(width)
			run := 1
			if g.Intn(3) == 0 {
				run = 1 + g.Intn(8)
			}
			for j := 0; j < run && len(s) < n; j++ {
				a := strconv.Itoa(k)
				if g.Intn(12) == 0 {
					a += "t"
				}
				s = append(s, a)
			}
		}
		return s
	}
	// family 2: absolute bursts: a thread advances a few atomic steps or finishes its operation
	burstSched := func(n, threads int) []string {
		var s []string
		for i := 0; i < n; i++ {
			k := g.Intn(threads + 1) // threads+1: the goroutine a scale-in tick may spawn
			switch g.Intn(4) {
			case 0:
				s = append(s, fmt.Sprintf("=%d!", k))
			default:
				for j, m := 0, core.Pick(g, []int{1, 1, 2, 3, 4, 5, 6, 7, 12}); j < m; j++ {
					a := fmt.Sprintf("=%d", k)
					if g.Intn(30) == 0 {
						a += "t"
					}
					s = append(s, a)
				}
			}
		}
		return s
	}
	pools := [][2]int{{1, 1}, {1, 2}, {2, 2}, {1, 3}, {2, 3}, {3, 3}}
	n := g.Scale(2200, 12000)
	for i := 0; i < n; i++ {
		pc := core.Pick(g, pools)
		capacity, maxCap := pc[0], pc[1]
		dyn := g.Intn(5) != 0
		expire := g.Intn(3) == 0
		var progs [][]string
		var tags []string
		nClients := 1 + g.Intn(3)
		for c := 0; c < nClients; c++ {
			progs = append(progs, clientProg(2+g.Intn(4)))
		}
		switch kind := g.Intn(10); {
		case kind < 3:
			tags = append(tags, "clients")
		case kind < 5:
			progs = append(progs, []string{"sweep", "sweep"})
			tags = append(tags, "clients+sweep")
		case kind < 6:
			progs = append(progs, []string{"close"})
			if g.Intn(2) == 0 {
				progs = append(progs, []string{"sweep", "sweep"})
			}
			tags = append(tags, "clients+sweep+close")
		default:
			progs = append(progs, core.Pick(g, c24Admin))
			if g.Intn(2) == 0 {
				progs = append(progs, core.Pick(g, c24Admin))
			}
			tags = append(tags, "clients+admin")
		}
		if dyn {
			tags = append(tags, "dynamic")
		}
		if g.Intn(2) == 0 {
			g.Emit(c24Case(capacity, maxCap, dyn, expire, progs, relSched(20+g.Intn(50), len(progs)+1)), append(tags, "sched-relative")...)
		} else {
			g.Emit(c24Case(capacity, maxCap, dyn, expire, progs, burstSched(6+g.Intn(14), len(progs))), append(tags, "sched-bursts")...)
		}
	}
	// family 3: two-preemption races. Clients 0 and 1 take resources, admin thread 3 advances
	// a steps into its operations, client 2 runs a Get, admin thread 4 advances b steps, then
	// everybody finishes in one of a few orders. Exhaustive over (a, b) in the thorough tier.
	type race struct {
		pool     [2]int
		dyn      bool
		x, y     []string
		a, b     int
		order    int
		expire   bool
		holders  int
		thirdGet string
	}
	emitRace := func(r race) {
		progs := [][]string{{"(get 0)", "put"}, {"(get 0)", "put"}, {r.thirdGet, "put"}, r.x, r.y}
		var s []string
		for h := 0; h < r.holders; h++ {
			s = append(s, fmt.Sprintf("=%d!", h))
		}
		for j := 0; j < r.a; j++ {
			s = append(s, "=3")
		}
		s = append(s, "=2!")
		for j := 0; j < r.b; j++ {
			s = append(s, "=4")
		}
		// the goroutine spawned by a scale-in tick is thread 5 (or 6)
		tail := [][]string{
			{"=5!", "=0!", "=1!", "=2!", "=3!", "=4!", "=5!", "=6!", "=2!", "=2!", "=3!", "=4!", "=3!", "=4!", "=5!", "=6!"},
			{"=0!", "=1!", "=2!", "=2!", "=5!", "=3!", "=4!", "=5!", "=6!", "=3!", "=4!", "=2!"},
			{"=4!", "=3!", "=5", "=5", "=5", "=5", "=2!", "=0!", "=4!", "=1!", "=2!", "=3!", "=5!", "=6!", "=4!", "=3!", "=2!"},
			{"=5", "=5", "=5", "=5", "=4!", "=4!", "=0!", "=4!", "=3!", "=1!", "=2!", "=2!", "=5!", "=6!", "=3!", "=4!"},
		}
		s = append(s, tail[r.order%len(tail)]...)
		tag := "race-" + strings.Trim(strings.Fields(r.x[len(r.x)-1])[0], "()") + "-vs-" + strings.Trim(strings.Fields(r.y[len(r.y)-1])[0], "()")
		g.Emit(c24Case(r.pool[0], r.pool[1], r.dyn, r.expire, progs, s), "race", tag)
	}
	if g.Tier == "quick" {
		for i := 0; i < 1300; i++ {
			pc := core.Pick(g, pools)
			emitRace(race{pool: pc, dyn: g.Intn(4) != 0, x: core.Pick(g, c24Admin), y: core.Pick(g, c24Admin),
				a: g.Intn(16), b: g.Intn(11), order: g.Intn(4), expire: g.Intn(4) == 0, holders: g.Intn(3),
				thirdGet: core.Pick(g, []string{"(get 0)", "(get 0)", "(get 3)"})})
		}
	} else {
		for _, pc := range [][2]int{{1, 2}, {2, 2}, {2, 3}} {
			for xi, x := range c24Admin {
				for _, y := range [][]string{{"sweep"}, {"close"}, {"age", "tick"}, {"(setcap 2)"}, {"(scale 1)"}} {
					for a := 0; a <= 14; a++ {
						for b := 0; b <= 6; b += 2 {
							emitRace(race{pool: pc, dyn: true, x: x, y: y, a: a, b: b, order: (a + b + xi) % 4,
								expire: (a+xi)%3 == 0, holders: pc[0], thirdGet: "(get 0)"})
						}
					}
				}
			}
		}
	}
	// family 4: the scaling semaphore. Clients hold `holders` resources; a shrinking capacity change (x) is
	// advanced to its wait for a slot; a second capacity change (y: grow, shrink, close, scale-in) and a
	// Get that would scale out meet the taken semaphore at every one of their step points; then the
	// resources come back in one of a few orders and everything finishes.
	{
		shr := [][]string{{"(scale 1)"}, {"age", "tick"}, {"close"}, {"(scale 0)"}, {"(scale 2)"}}
		other := [][]string{{"(scale 3)"}, {"(setcap 3)"}, {"(scale 1)"}, {"close"}, {"age", "tick"}, {"(scale 2)"}, {"(setcap 2)"}, {"sweep"}}
		emitSem := func(pc [2]int, x, y []string, b, c, order int, expire bool) {
			var holder []string
			for h := 0; h < pc[1]; h++ {
				holder = append(holder, "(get 0)")
			}
			for h := 0; h < pc[1]; h++ {
				holder = append(holder, "put")
			}
			progs := [][]string{holder, {"(get 0)", "put"}, x, y}
			var s []string
			for h := 0; h < pc[1]; h++ { // client 0 takes every slot up to the maximum (scale-outs included)
				s = append(s, "=0!")
			}
			for range x {
				s = append(s, "=2!") // x up to its wait (a tick: its goroutine is thread 4)
			}
			s = append(s, "=4!")
			for j := 0; j < b; j++ {
				s = append(s, "=3")
			}
			for j := 0; j < c; j++ {
				s = append(s, "=1")
			}
			tails := [][]string{
				{"=0!", "=2!", "=4!", "=3!", "=1!", "=0!", "=3!", "=5!", "=0!", "=2!", "=3!", "=4!", "=5!", "=1!", "=1!", "=3!", "=3!"},
				{"=3!", "=1!", "=0!", "=1!", "=0!", "=2!", "=4!", "=0!", "=3!", "=5!", "=1!", "=3!", "=2!", "=4!", "=5!", "=3!", "=1!"},
				{"=0!", "=0!", "=0!", "=1!", "=3!", "=2!", "=4!", "=3!", "=5!", "=1!", "=3!", "=2!", "=1!"},
			}
			s = append(s, tails[order%len(tails)]...)
			g.Emit(c24Case(pc[0], pc[1], true, expire, progs, s), "semaphore", "sem-"+strings.Trim(strings.Fields(x[len(x)-1])[0], "()")+"-vs-"+strings.Trim(strings.Fields(y[len(y)-1])[0], "()"))
		}
		if g.Tier == "quick" {
			for i := 0; i < 500; i++ {
				emitSem(core.Pick(g, [][2]int{{1, 2}, {2, 2}, {2, 3}, {3, 3}, {1, 3}}), core.Pick(g, shr), core.Pick(g, other), g.Intn(12), g.Intn(9), g.Intn(3), g.Intn(4) == 0)
			}
		} else {
			for _, pc := range [][2]int{{1, 2}, {2, 2}, {2, 3}, {3, 3}} {
				for _, x := range shr {
					for _, y := range other {
						for b := 0; b <= 11; b++ {
							for c := 0; c <= 8; c += 2 {
								emitSem(pc, x, y, b, c, b+c/2, (b+c)%5 == 0)
							}
						}
					}
				}
			}
		}
	}
	// family 5: a Get preempted at each of its step points (scale-out section included) by a whole
	// capacity change; afterwards a second capacity change probes that the semaphore and the lock are free.
	{
		whole := [][]string{{"(scale 3)"}, {"(scale 2)"}, {"(scale 1)"}, {"close"}, {"(setcap 3)"}, {"(setcap 2)"}, {"age", "tick"}, {"(scale 0)"}}
		probe := [][]string{{"(scale 2)", "(get 0)"}, {"(scale 1)"}, {"(scale 3)", "(get 0)"}, {"close"}, {"age", "tick"}}
		emitPre := func(pc [2]int, h, c int, y, z []string, order int) {
			var holder []string
			for i := 0; i < h; i++ {
				holder = append(holder, "(get 0)")
			}
			for i := 0; i < h; i++ {
				holder = append(holder, "put")
			}
			progs := [][]string{holder, {"(get 0)", "put"}, y, z}
			var s []string
			for i := 0; i < h; i++ {
				s = append(s, "=0!")
			}
			for j := 0; j < c; j++ {
				s = append(s, "=1")
			}
			for range y {
				s = append(s, "=2!")
			}
			tails := [][]string{
				{"=4!", "=1!", "=1!", "=3!", "=3!", "=0!", "=4!", "=5!", "=0!", "=0!", "=3!", "=2!", "=4!", "=5!"},
				{"=1!", "=3!", "=4!", "=0!", "=1!", "=3!", "=5!", "=0!", "=4!", "=0!", "=3!", "=2!", "=5!"},
				{"=0!", "=4!", "=1!", "=3!", "=1!", "=3!", "=0!", "=0!", "=2!", "=4!", "=5!", "=3!"},
			}
			s = append(s, tails[order%len(tails)]...)
			g.Emit(c24Case(pc[0], pc[1], true, false, progs, s), "get-preempted", "pre-"+strings.Trim(strings.Fields(y[len(y)-1])[0], "()"))
		}
		if g.Tier == "quick" {
			for i := 0; i < 450; i++ {
				pc := core.Pick(g, [][2]int{{1, 2}, {2, 2}, {2, 3}, {1, 3}, {3, 3}})
				emitPre(pc, g.Intn(pc[1]+1), g.Intn(16), core.Pick(g, whole), core.Pick(g, probe), g.Intn(3))
			}
		} else {
			for _, pc := range [][2]int{{1, 2}, {2, 3}, {1, 3}, {3, 3}} {
				for h := 0; h <= pc[1]; h++ {
					for c := 0; c <= 15; c++ {
						for yi, y := range whole {
							for zi, z := range probe {
								emitPre(pc, h, c, y, z, c+yi+zi)
							}
						}
					}
				}
			}
		}
	}
	// malformed stream: invalid pool configurations, empty programs, schedules naming absent threads
	for _, c := range [][2]int{{0, 1}, {2, 1}, {-1, 3}, {1, 0}, {3, -2}, {0, 0}} {
		g.Emit(c24Case(c[0], c[1], true, false, [][]string{{"(get 0)"}}, []string{"0", "0"}), "bad-config")
	}
	g.Emit(c24Case(1, 1, true, false, [][]string{{}, {"put", "drop"}}, []string{"0", "=7", "=7!", "0t", "3"}), "degenerate")
	g.Emit(c24Case(2, 3, false, true, [][]string{{"(scale -1)", "(scale 9)", "(setcap -3)", "(setcap 9)"}}, []string{"=0!", "=0!", "=0!", "=0!", "=0!"}), "degenerate")
}

func init() {
	core.Register(&core.Property{
		ID: "C24",
		Rule: "forced schedules on pools with capacity ≤ maxCap ≤ 3: 1–3 client threads (Get with 0/1/3 factory failures, Put, Put(nil)) plus sweeper, scale-in tick (+ its goroutine), SetCapacity/ScaleCapacity and Close threads; " +
			"five schedule families: candidate-relative random picks with timeouts, absolute bursts (n atomic steps / to the end of the operation), semaphore races (a shrinking capacity change parked at its wait for a slot with the semaphore taken, a second capacity change advanced b steps and a scaling-out Get advanced c steps against it, three finishing orders; exhaustive over b ≤ 11, c ≤ 8 in the thorough tier), preempted Gets (a Get stopped at each of its ≤ 15 step points, scale-out section included, while a whole capacity change runs, then a second capacity change probing the semaphore; exhaustive in the thorough tier), and two-preemption races (admin op advanced a steps, a Get, second admin op advanced b steps, all finishing orders; exhaustive over a ≤ 14, b ≤ 6 in the thorough tier); " +
			"every step executed on a real ResourcePool through its verifStep points and on the Lean transition system; non-trivial = a trace with at least one successful Get",
		Generate: genC24,
		Exec:     execC24,
		Trivial:  func(in core.Sexp, out string) bool { return !strings.Contains(out, "(got ") },
		Assumptions: []string{
			"Go channels, sync.Mutex, sync2.Semaphore (one slot: Acquire blocks, TryAcquire does not, a deferred Release runs on panic), sync/atomic and util/timer.Timer.Stop are modelled (FIFO buffer, close semantics, Stop waits for a running callback), not verified",
			"one model step = the code between two verifStep points of util/resource_pool.go; scaleInResources' two loads (capacity, baseCapacity) form one step",
			"time is abstract: a resource is idle-expired / a scale-out is recent / a waiting Get times out when the schedule says so",
		},
	})
}
