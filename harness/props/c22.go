package props

import (
	"encoding/json"
	"fmt"
	"strings"
	"sync"
	"unicode/utf8"

	"gaeaverif/harness/core"

	"github.com/XiaoMi/Gaea/models"
	"github.com/XiaoMi/Gaea/parser"
	"github.com/XiaoMi/Gaea/proxy/server"
)

// C22 — read/write splitting (proxy/server checkExecuteFromSlave, handleShow,
// getBackendConn; backend Slice.GetConn; parser.Tokenize / TrimTrailingComments).
//
// Line: (rw (user RWFLAG RWSPLIT) (csl CONFIGURED FORCE) (sess KEEP INTRANS AUTOCOMMIT)
//           (slice NSLAVES FALLBACK) (stmt TYPE SQL))
// TYPE is parser.Preview(SQL) at generation time (the model is parametric in
// it; Exec recomputes it and reports it, so a stale value shows as a
// disagreement).
// Output: ((st TYPE) (tok TOKEN…) (flag F) (e2e conn NODE FLAG | local FLAG | failed FLAG | unmodelled))
//
// Multi-statement packet (namespace support_multi_query, client CLIENT_MULTI_STATEMENTS; the real
// handleQuery -> doMultiStmts path, every piece on the SAME request context):
// Line: (rwm (user …) (csl …) (sess …) (slice …) (pieces (TYPE SQL) (TYPE SQL) …))
// the pieces are what parser.SplitStatementToPieces makes of the packet (= the pieces joined by ";"),
// TYPE = parser.Preview(piece), both at generation time (Exec re-splits and reports a difference).
// Output: (multi (p TYPE NODE) …)   NODE master|slave (the node class that executed the piece) | local |
// failed | unmodelled; the list ends with the first failed / unmodelled piece.

func init() {
	core.Register(&core.Property{
		ID: "C22",
		Rule: "statement bodies (plain/locking SELECT in every clause form, SHOW incl. read_only probes, @@read_only probes, writes, " +
			"statements with quotes/comment marks inside literals) x letter case x white space x leading and trailing margins " +
			"(block/line/hash comments, trace comments, near-miss comment marks) x master-hint placements and near-misses " +
			"x user kinds x check_select_lock x session state (keep-session, transaction, autocommit) x slice (replicas, fallback); " +
			"multi-statement packets of two and three pieces (every ordered pair of plain read / locking read / hinted read / read_only probe / write / show databases) " +
			"through the real handleQuery/doMultiStmts on one request context; " +
			"plus a malformed stream of unbalanced quotes and comment marks; non-trivial = SELECT/SHOW statement of a user allowed to write",
		Generate: genC22,
		Exec:     execC22,
		Trivial: func(in core.Sexp, out string) bool {
			if in.Head() == "rwm" { // non-trivial: two pieces or more were followed to a backend
				return strings.Count(out, " master)")+strings.Count(out, " slave)") < 2
			}
			return !(strings.HasPrefix(out, "((st 0)") || strings.HasPrefix(out, "((st 11)")) || in.Nth(1).Nth(1).Atom != "2"
		},
		Assumptions: []string{
			"statement texts are valid UTF-8 and contain no cased non-ASCII letters other than U+0130, U+212A, U+017F (the model maps case for ASCII and these three)",
			"parser.Preview's statement kind is taken as given (the model is parametric in it)",
			"users are normal users (other_property 0); statistic, monitor and admin users use different pools and are not covered",
			"data-changing statements of read-only users (isSQLNotAllowedByUser, C21) are not routed by this model",
			"the master of the slice is up; a replica counts as available iff the slice has one (health checks, fusing and balancing are C25-C28)",
			"MySQL's default sql_mode: backslash escapes inside '…' and \"…\" (TrimTrailingComments and the reference semantics assume it)",
		},
	})
}

type c22Key struct {
	rwFlag, rwSplit int
	csl             bool
	nSlaves         int
	fallback        string
}

var (
	c22Mu    sync.Mutex
	c22Cache = map[c22Key]*server.VerifSession{}
)

func c22Session(k c22Key) (*server.VerifSession, error) {
	rwQuietLog()
	c22Mu.Lock()
	defer c22Mu.Unlock()
	if vs, ok := c22Cache[k]; ok {
		return vs, nil
	}
	var slaves []string
	for i := 0; i < k.nSlaves; i++ {
		slaves = append(slaves, fmt.Sprintf("127.0.0.1:%d", 3307+i))
	}
	ns := &models.Namespace{
		Name:       "ns_c22",
		Online:     true,
		AllowedDBS: map[string]bool{"db_a": true},
		Slices: []*models.Slice{{Name: "slice-0", UserName: "root", Password: "root", Master: "127.0.0.1:3306",
			Slaves: slaves, Capacity: 2, MaxCapacity: 4, IdleTimeout: 3600}},
		ShardRules:                  []*models.Shard{},
		Users:                       []*models.User{{UserName: "u", Password: "p", Namespace: "ns_c22", RWFlag: k.rwFlag, RWSplit: k.rwSplit}},
		DefaultSlice:                "slice-0",
		CheckSelectLock:             k.csl,
		FallbackToMasterOnSlaveFail: k.fallback,
	}
	data, err := json.Marshal(ns)
	if err != nil {
		return nil, err
	}
	vs, err := server.VerifNewSession(string(data), "u", "db_a")
	if err != nil {
		return nil, err
	}
	c22Cache[k] = vs
	return vs, nil
}

func c22Tokens(tokens []string) string {
	parts := []string{"tok"}
	for _, t := range tokens {
		parts = append(parts, core.Text(t).String())
	}
	return "(" + strings.Join(parts, " ") + ")"
}

func c22IsWriteKind(st int) bool {
	return st == parser.StmtInsert || st == parser.StmtUpdate || st == parser.StmtDelete || st == parser.StmtReplace ||
		st == parser.StmtDDL || st == parser.StmtLoad || // rejected for read-only users (C21)
		// decided by C21's check of the text (refused outright, or followed to the main statement)
		st == parser.StmtCallProc || st == parser.StmtPrepare || st == parser.StmtExecute || st == parser.StmtWith || st == parser.StmtComment
}

// statement kinds handled without a plan other than SHOW: not followed end to end
func c22OtherWithoutPlan(st int) bool {
	switch st {
	case parser.StmtSet, parser.StmtBegin, parser.StmtCommit, parser.StmtRollback, parser.StmtSavepoint, parser.StmtUse,
		parser.StmtRelease, parser.StmeSRollback, parser.StmtLockTables, parser.StmtKill:
		return true
	}
	return false
}

func execC22(in core.Sexp) string {
	if in.Head() == "rwm" {
		return execC22Multi(in)
	}
	if in.Head() != "rw" {
		return "bad"
	}
	user, csl, sess, slice, stmt := in.Nth(1), in.Nth(2), in.Nth(3), in.Nth(4), in.Nth(5)
	k := c22Key{rwFlag: int(user.Nth(1).Int()), rwSplit: int(user.Nth(2).Int()), csl: csl.Nth(1).Bool(),
		nSlaves: int(slice.Nth(1).Int()), fallback: slice.Nth(2).Str()}
	sql := stmt.Nth(2).Str()
	if !utf8.ValidString(sql) {
		return "bad"
	}
	vs, err := c22Session(k)
	if err != nil {
		return "(err config)"
	}
	c22Mu.Lock()
	defer c22Mu.Unlock()
	configured := vs.CheckSelectLock()
	switch csl.Nth(2).Atom {
	case "on":
		vs.ForceCheckSelectLock(true)
	case "off":
		vs.ForceCheckSelectLock(false)
	}
	defer vs.ForceCheckSelectLock(configured)
	keep, inTrans, autocommit := sess.Nth(1).Bool(), sess.Nth(2).Bool(), sess.Nth(3).Bool()
	vs.SetKeepSession(keep)
	vs.SetTx(inTrans, autocommit)
	vs.SetDB("db_a")
	vs.ResetConns()

	st, tokens, flag := vs.VerifCheckExecuteFromSlave(sql)
	e2e := "(e2e unmodelled)"
	switch {
	case k.rwFlag != models.ReadWrite && c22IsWriteKind(st):
	case c22OtherWithoutPlan(st):
	default:
		isUnshard := true
		if st != parser.StmtShow {
			isUnshard, _, _ = vs.VerifPreBuildUnshardPlan(st, "db_a", sql)
		}
		if isUnshard {
			vs.ResetConns()
			vs.SetTx(inTrans, autocommit)
			f2, _, err := vs.VerifDoQuery(sql)
			pools := vs.PoolLog()
			switch {
			case len(pools) == 0 && err == nil:
				e2e = fmt.Sprintf("(e2e local %s)", core.B(f2))
			case len(pools) == 0:
				e2e = fmt.Sprintf("(e2e failed %s)", core.B(f2))
			case len(pools) == 1:
				e2e = fmt.Sprintf("(e2e conn %s %s)", pools[0], core.B(f2))
			default:
				e2e = fmt.Sprintf("(e2e conns %s)", strings.Join(pools, "+"))
			}
		}
	}
	vs.ResetConns()
	return fmt.Sprintf("((st %d) %s (flag %s) %s)", st, c22Tokens(tokens), core.B(flag), e2e)
}

// execC22Multi runs a multi-statement packet through the real handleQuery.
func execC22Multi(in core.Sexp) string {
	user, csl, sess, slice, pcs := in.Nth(1), in.Nth(2), in.Nth(3), in.Nth(4), in.Nth(5)
	k := c22Key{rwFlag: int(user.Nth(1).Int()), rwSplit: int(user.Nth(2).Int()), csl: csl.Nth(1).Bool(),
		nSlaves: int(slice.Nth(1).Int()), fallback: slice.Nth(2).Str()}
	var sqls []string
	for _, p := range pcs.List[1:] {
		q := p.Nth(1).Str()
		if !utf8.ValidString(q) {
			return "bad"
		}
		sqls = append(sqls, q)
	}
	if len(sqls) < 2 {
		return "bad"
	}
	packet := strings.Join(sqls, ";")
	got, err := parser.SplitStatementToPieces(packet)
	if err != nil || len(got) != len(sqls) {
		return "(err pieces)"
	}
	for i := range got {
		if got[i] != sqls[i] {
			return "(err pieces)"
		}
	}
	vs, err := c22Session(k)
	if err != nil {
		return "(err config)"
	}
	c22Mu.Lock()
	defer c22Mu.Unlock()
	configured := vs.CheckSelectLock()
	switch csl.Nth(2).Atom {
	case "on":
		vs.ForceCheckSelectLock(true)
	case "off":
		vs.ForceCheckSelectLock(false)
	}
	defer vs.ForceCheckSelectLock(configured)
	keep, inTrans, autocommit := sess.Nth(1).Bool(), sess.Nth(2).Bool(), sess.Nth(3).Bool()
	vs.SetKeepSession(keep)
	vs.SetDB("db_a")
	// which pieces the model follows (as for single statements)
	unmodelled := make([]bool, len(sqls))
	sts := make([]int, len(sqls))
	for i, q := range sqls {
		st := parser.Preview(q)
		sts[i] = st
		switch {
		case k.rwFlag != models.ReadWrite && c22IsWriteKind(st):
			unmodelled[i] = true
		case c22OtherWithoutPlan(st):
			unmodelled[i] = true
		case st != parser.StmtShow:
			vs.ResetConns()
			isUnshard, _, _ := vs.VerifPreBuildUnshardPlan(st, "db_a", q)
			unmodelled[i] = !isUnshard
		}
	}
	vs.ResetConns()
	vs.SetTx(inTrans, autocommit)
	runErr := vs.VerifHandleQueryMulti(packet)
	log := vs.ExecLog()
	vs.ResetConns()
	vs.SetTx(inTrans, autocommit)
	vs.SetDB("db_a")

	var sb strings.Builder
	sb.WriteString("(multi")
	pos := 0
	for i, q := range sqls {
		if unmodelled[i] {
			sb.WriteString(fmt.Sprintf(" (p %d unmodelled)", sts[i]))
			break
		}
		found := -1
		for j := pos; j < len(log); j++ {
			if log[j][1] == q {
				found = j
				break
			}
		}
		if found >= 0 {
			sb.WriteString(fmt.Sprintf(" (p %d %s)", sts[i], log[found][0]))
			pos = found + 1
			continue
		}
		tokens := parser.Tokenize(q)
		if sts[i] == parser.StmtShow && len(tokens) == 2 && strings.ToLower(tokens[1]) == "databases" && (runErr == nil || i < len(sqls)-1) {
			sb.WriteString(fmt.Sprintf(" (p %d local)", sts[i]))
			continue
		}
		if runErr == nil {
			sb.WriteString(fmt.Sprintf(" (p %d vanished)", sts[i])) // no backend saw it and nothing failed
		} else {
			sb.WriteString(fmt.Sprintf(" (p %d failed)", sts[i]))
		}
		break
	}
	sb.WriteString(")")
	return sb.String()
}

// ---- generator ----

var c22Bodies = []string{
	"select * from t",
	"select * from t where id = 1",
	"select a, b from t where id=1",
	"select * from t where name = 'x' and id in (1,2)",
	"select * from t1 join t2 on t1.id = t2.id where t1.a > 5",
	"select `a`, `b` from `t` where `c` = \"d\"",
	// a backslash is an ordinary character inside a back-quoted identifier (seeded change C22-4)
	"select * from `t\\`",
	"select `a\\` from t where id = 1",
	"select * from `t\\` where note = '`'",
	"select * from `a\\\\` join `b\\` on 1",
	"select count(*) from t group by a order by b limit 3",
	"select * from t where note = 'for update'",
	"select * from t where note = 'a -- b'",
	"select * from t where note = '/* c */'",
	"select * from t where note = 'it''s'",
	"select * from t where note = 'a\\'b' and x = 1",
	"select * from t where note = '#' and x = 1",
	"select * from t where note = '/*master*/'",
	"select * from t where note = \"say \\\"hi\\\" -- \"",
	"select 5 --1",
	"select 5 - -1 from t",
	"select a/b, a*b from t",
	"select 1",
	"select",
	"select@@version",
	"select @@version",
	"select @@read_only",
	"select @@global.read_only",
	"select @@GLOBAL.READ_ONLY",
	"SELECT 'aaa', @@Read_Only, 'bbb'",
	"select @@session.tx_read_only",
	"select @@innodb_read_only",
	"select @ @read_only",
	"select '@@read_only'",
	"select last_insert_id()",
	"select update_time, share_mode from t",
	"select * from t where skip = locked",
	"show tables",
	"show",
	"show databases",
	"SHOW DATABASES",
	"show variables like 'read_only'",
	"show variables like \"read_only\"",
	"SHOW VARIABLES LIKE 'READ_ONLY'",
	"show global variables like '%Read_Only%'",
	"show variables like 'read_'",
	"show global status like 'uptime'",
	"show create table t",
	"insert into t(a) values (1)",
	"insert into t select * from u",
	"update t set a = 1 where id = 2",
	"delete from t where id = 1",
	"replace into t(a) values ('x')",
	"set autocommit=1",
	"begin",
	"use db_a",
	"explain select * from t",
	"create table x (a int)",
	"(select * from t)",
	"with c as (select 1) select * from c",
}

var c22LockClauses = [][]string{
	{"for", "update"}, {"for", "share"}, {"lock", "in", "share", "mode"},
	{"for", "update", "nowait"}, {"for", "share", "nowait"},
	{"for", "update", "skip", "locked"}, {"for", "share", "skip", "locked"},
	{"lock", "in", "share", "mode", "nowait"}, {"lock", "in", "share", "mode", "skip", "locked"},
	// not lock clauses for the check (reported as they are)
	{"for", "update", "of", "t"}, {"for"}, {"update"}, {"mode", "share"}, {"for", "updates"}, {"skip"}, {"locked"},
	{"fo", "rupdate"}, {"nowait"}, {"share", "nowait"},
}

var c22Seps = []string{" ", " ", " ", "  ", "\t", "\n", "\r\n", " \n\t ", "\v", "\f", ",", "/", " ", "/**/", " /* c */ "}

var c22Lead = []string{"", "", "", " ", "\n\t ", "/* c */ ", "/* c */", "-- c\n", "-- c\n-- d\n  ", "# c\n", "/* a */ /* b */ ", "/*!40100 x */ ",
	"/*+ hint */ ", "　", "--\n", "/* trace_id=7 */\n", "-- x\n/* y */ "}

var c22Trail = []string{"", "", "", " ", "\n", "\t\r\n ", " /* trace_id=1 */", "/* trace_id=1 */", " -- x", " -- x\n", "\n-- x", " # x", "#x", " #", " --", " --\n",
	" /* a */ /* b */", " /* a */ -- b", " -- a\n/* b */", " /* a\n b */ ", "/**/", " /***/", " /* a /* b */", " /* x", " --x", " -- x\n  y", " */", " /*/ x */", " ;", ";", " ; ",
	" /*!50000 x */", " ", " /* '*/", " -- '", " /* \" */ -- `"}

var c22Hints = []string{"/*master*/", "/*MASTER*/", "/*Master*/", "/*mAsTeR*/"}
var c22NearHints = []string{"/* master */", "/*master */", "/* master*/", "/*masters*/", "/*maſter*/", "/*+ master */", "*master*", "/*master", "master*/", "/**master**/"}

func c22Case(g *core.Gen, s string) string {
	switch g.Intn(5) {
	case 0:
		return strings.ToUpper(s)
	case 1:
		b := []rune(s)
		for i, r := range b {
			if g.Intn(2) == 0 && r >= 'a' && r <= 'z' {
				b[i] = r - 32
			}
		}
		return string(b)
	case 2:
		if len(s) > 0 && s[0] >= 'a' && s[0] <= 'z' {
			return strings.ToUpper(s[:1]) + s[1:]
		}
	}
	return s
}

func c22Sep(g *core.Gen) string {
	if g.Intn(3) > 0 {
		return " "
	}
	return core.Pick(g, c22Seps)
}

// one statement text with its margins
func c22Statement(g *core.Gen) (string, []string) {
	var tags []string
	body := core.Pick(g, c22Bodies)
	if g.Intn(4) == 0 {
		body = c22Case(g, body)
	}
	// lock clause
	if g.Intn(5) < 3 {
		words := core.Pick(g, c22LockClauses)
		tags = append(tags, "clause:"+strings.Join(words, "-"))
		for _, w := range words {
			body += c22Sep(g) + c22Case(g, w)
		}
	}
	// master hint inside: after the first word
	hint := ""
	switch g.Intn(10) {
	case 0, 1:
		hint = core.Pick(g, c22Hints)
	case 2:
		hint = core.Pick(g, c22NearHints)
	}
	lead, trail := core.Pick(g, c22Lead), core.Pick(g, c22Trail)
	if hint != "" {
		switch g.Intn(4) {
		case 0:
			lead = lead + hint + core.Pick(g, []string{" ", "", "\n"})
			tags = append(tags, "hint:lead")
		case 1:
			if i := strings.IndexAny(body, " \t\n"); i > 0 {
				body = body[:i] + " " + hint + body[i:]
			} else {
				body += " " + hint
			}
			tags = append(tags, "hint:inside")
		case 2:
			trail = core.Pick(g, []string{" ", "", "\n"}) + hint + trail
			tags = append(tags, "hint:trail")
		default:
			lead = hint + core.Pick(g, []string{" ", ""}) + lead
			tags = append(tags, "hint:first")
		}
	}
	if lead != "" {
		tags = append(tags, "lead")
	}
	if strings.TrimSpace(trail) != "" {
		tags = append(tags, "trail-comment")
	}
	return lead + body + trail, tags
}

var c22Frags = []string{"select", "show", "for", "update", "share", "mode", " ", " ", "\n", "\t", "'", "\"", "`", "\\", "/*", "*/", "--", "-- ", "#", "/", "*", "-",
	"/*master*/", "*master*", "@@", "read_only", "@@read_only", "x", "1", ",", "(", ")", ";", "İ", "K", "ſ", " ", "　", "é", "表", "!", "\r", "\v"}

func c22Malformed(g *core.Gen) string {
	var b strings.Builder
	if g.Intn(2) == 0 {
		b.WriteString(core.Pick(g, []string{"select ", "show ", "SELECT\t", "select\v", "/* */select "}))
	}
	n := 1 + g.Intn(9)
	for i := 0; i < n; i++ {
		b.WriteString(core.Pick(g, c22Frags))
	}
	return b.String()
}

func c22Line(g *core.Gen, rwFlag, rwSplit int, cslCfg bool, force string, keep, inTrans, autocommit bool, nSlaves int, fallback string, sql string) core.Sexp {
	return core.L(core.A("rw"),
		core.L(core.A("user"), core.I(int64(rwFlag)), core.I(int64(rwSplit))),
		core.L(core.A("csl"), core.B(cslCfg), core.A(force)),
		core.L(core.A("sess"), core.B(keep), core.B(inTrans), core.B(autocommit)),
		core.L(core.A("slice"), core.I(int64(nSlaves)), core.Text(fallback)),
		core.L(core.A("stmt"), core.I(int64(parser.Preview(sql))), core.Text(sql)))
}

// pieces of multi-statement packets, by what the property says about them
var c22MultiPieces = []struct{ kind, sql string }{
	{"read", "select * from t where id = 1"},
	{"read", "select a, b from t"},
	{"read", "show tables"},
	{"read", "SELECT 1"},
	{"lock", "select * from t where id = 1 for update"},
	{"lock", "select * from t lock in share mode /* trace_id=1 */"},
	{"lock", "select * from t for share skip locked"},
	{"hint", "select /*master*/ * from t"},
	{"hint", "/*master*/ select * from t where id = 2"},
	{"probe", "select @@read_only"},
	{"probe", "show variables like 'read_only'"},
	{"write", "update t set a = 1 where id = 1"},
	{"write", "insert into t(a) values (1)"},
	{"write", "delete from t where id = 2"},
	{"write", "replace into t(a) values ('x;y')"},
	{"local", "show databases"},
	{"read", "select * from t where note = 'a;b'"},
}

func c22MultiLine(g *core.Gen, rwFlag, rwSplit int, cslCfg bool, force string, keep, inTrans, autocommit bool, nSlaves int, fallback string, packet string) (core.Sexp, bool) {
	pieces, err := parser.SplitStatementToPieces(packet)
	if err != nil || len(pieces) < 2 || strings.Join(pieces, ";") != packet {
		return core.Sexp{}, false
	}
	ps := []core.Sexp{core.A("pieces")}
	for _, p := range pieces {
		ps = append(ps, core.L(core.I(int64(parser.Preview(p))), core.Text(p)))
	}
	return core.L(core.A("rwm"),
		core.L(core.A("user"), core.I(int64(rwFlag)), core.I(int64(rwSplit))),
		core.L(core.A("csl"), core.B(cslCfg), core.A(force)),
		core.L(core.A("sess"), core.B(keep), core.B(inTrans), core.B(autocommit)),
		core.L(core.A("slice"), core.I(int64(nSlaves)), core.Text(fallback)),
		core.L(ps...)), true
}

// multi-statement packets: every ordered pair of pieces for the split user in a plain session, and
// random packets of two or three pieces for every user kind and session state
func genC22Multi(g *core.Gen) {
	seps := []string{";", "; ", ";\n", " ;  ", ";\t"}
	for _, a := range c22MultiPieces {
		for _, b := range c22MultiPieces {
			for _, u := range [][2]int{{2, 1}, {2, 0}, {1, 1}} {
				if g.Tier == "quick" && u[0] != 2 && g.Intn(3) != 0 {
					continue
				}
				if line, ok := c22MultiLine(g, u[0], u[1], true, "none", false, false, true, 1, "", a.sql+core.Pick(g, seps)+b.sql); ok {
					g.Emit(line, "multi", "multi:"+a.kind+"-then-"+b.kind, fmt.Sprintf("user:%d/%d", u[0], u[1]))
				}
			}
		}
	}
	n := g.Scale(600, 8000)
	for i := 0; i < n; i++ {
		k := 2 + g.Intn(2)
		var parts, kinds []string
		for j := 0; j < k; j++ {
			p := core.Pick(g, c22MultiPieces)
			q := p.sql
			if g.Intn(4) == 0 {
				q = c22Case(g, q)
			}
			if g.Intn(6) == 0 {
				q = core.Pick(g, []string{"/* c */ ", "-- c\n", " "}) + q
			}
			if g.Intn(6) == 0 {
				q += core.Pick(g, []string{" /* trace_id=1 */", " -- x\n", " # x\n", " "})
			}
			parts = append(parts, q)
			kinds = append(kinds, p.kind)
		}
		packet := ""
		for j, q := range parts {
			if j > 0 {
				packet += core.Pick(g, seps)
			}
			packet += q
		}
		if g.Intn(5) == 0 {
			packet += ";"
		}
		rwFlag := core.Pick(g, []int{2, 2, 2, 1})
		rwSplit := core.Pick(g, []int{1, 1, 0})
		keep := g.Intn(5) == 0
		inTrans := g.Intn(5) == 0
		autocommit := g.Intn(6) > 0
		nSlaves := core.Pick(g, []int{1, 1, 1, 2, 0})
		fallback := core.Pick(g, []string{"", "", "on", "off"})
		cslCfg := g.Intn(3) > 0
		force := core.Pick(g, []string{"none", "none", "none", "none", "off", "on"})
		if line, ok := c22MultiLine(g, rwFlag, rwSplit, cslCfg, force, keep, inTrans, autocommit, nSlaves, fallback, packet); ok {
			g.Emit(line, "multi", "multi:"+strings.Join(kinds, "-then-"), fmt.Sprintf("user:%d/%d", rwFlag, rwSplit))
		}
	}
}

func genC22(g *core.Gen) {
	genC22Multi(g)
	emit := func(sql string, tags []string) {
		rwFlag := core.Pick(g, []int{2, 2, 2, 1})
		rwSplit := core.Pick(g, []int{1, 1, 0})
		cslCfg := g.Intn(3) > 0
		force := core.Pick(g, []string{"none", "none", "none", "none", "none", "off", "on"})
		keep := g.Intn(5) == 0
		inTrans := g.Intn(5) == 0
		autocommit := g.Intn(6) > 0
		nSlaves := core.Pick(g, []int{1, 1, 1, 2, 0})
		fallback := core.Pick(g, []string{"", "", "on", "off", "OFF", "x"})
		utag := fmt.Sprintf("user:%d/%d", rwFlag, rwSplit)
		g.Emit(c22Line(g, rwFlag, rwSplit, cslCfg, force, keep, inTrans, autocommit, nSlaves, fallback, sql), append(tags, utag, "stmt:"+parser.StmtType(parser.Preview(sql)))...)
	}
	// every body x every trailing margin once, for the split user (the defect class of the pinned tree)
	for _, words := range c22LockClauses[:9] {
		for _, trail := range c22Trail {
			sql := "select * from t where id = 1 " + strings.Join(words, " ") + trail
			g.Emit(c22Line(g, 2, 1, true, "none", false, false, true, 1, "", sql), "grid:clause-x-trail")
		}
	}
	for _, hint := range append(append([]string{}, c22Hints...), c22NearHints...) {
		for _, trail := range c22Trail[:20] {
			for _, lead := range []string{"", "/* c */ ", "-- c\n"} {
				g.Emit(c22Line(g, 2, 1, true, "none", false, false, true, 1, "", lead+"select * from t "+hint+trail), "grid:hint-trail")
				g.Emit(c22Line(g, 2, 1, true, "none", false, false, true, 1, "", lead+hint+" select * from t"+trail), "grid:hint-lead")
			}
		}
	}
	// every body for every user kind and session state
	for _, body := range c22Bodies {
		for _, u := range [][2]int{{2, 1}, {2, 0}, {1, 1}, {1, 0}} {
			for _, ss := range [][3]bool{{false, false, true}, {false, true, true}, {false, false, false}, {true, false, true}, {true, true, true}} {
				g.Emit(c22Line(g, u[0], u[1], true, "none", ss[0], ss[1], ss[2], 1, "", body), "grid:body-x-user-x-session")
			}
		}
	}
	n := g.Scale(3000, 40000)
	for i := 0; i < n; i++ {
		sql, tags := c22Statement(g)
		emit(sql, tags)
	}
	m := g.Scale(600, 8000)
	for i := 0; i < m; i++ {
		emit(c22Malformed(g), []string{"malformed"})
	}
}
