package props

import (
	"fmt"
	"strings"

	"gaeaverif/harness/core"

	"github.com/XiaoMi/Gaea/parser"
	"github.com/XiaoMi/Gaea/proxy/server"
)

// C14 — CalcParams of proxy/server/executor_stmt.go against the placeholders
// of the SQL grammar (Lean: Model/StmtLex.lean; /repo's parser as oracle).

func init() {
	core.Register(&core.Property{
		ID: "C14",
		Rule: "statement texts assembled from lexical elements (single/double-quoted strings with \\x escapes and doubled quotes, back-quoted identifiers, " +
			"-- / # / C-style / MySQL-specific comments, '?' inside and outside each), their truncations and one-byte corruptions, random strings over the " +
			"13 special bytes, and (exhaustively) every text up to a small length over that alphabet; for the well-formed ones the offsets of the parameter " +
			"markers seen by /repo's parser are observed next to CalcParams' result; non-trivial = CalcParams accepted the text and reported at least one marker " +
			"or the text contains a '?' that is not a marker",
		Generate: genC14,
		Exec:     execC14,
		Trivial: func(in core.Sexp, out string) bool {
			if !strings.Contains(out, "(ok ") {
				return true
			}
			return !strings.Contains(in.Nth(1).Str(), "?")
		},
		Assumptions: []string{
			"the lexical grammar of Model/StmtLex.lean is MySQL's in the default sql_mode for an ASCII-compatible character set (checked against /repo's parser on every generated well-formed text)",
			"the body of /*!NNNNN … */ is executed by the backend (its version is at least NNNNN), as /repo's parser assumes",
		},
	})
}

func c14Calc(text string) string {
	count, offsets, items, err := server.CalcParams(text)
	if err != nil {
		return "fail"
	}
	offs := make([]string, len(offsets))
	for i, o := range offsets {
		offs[i] = fmt.Sprint(o)
	}
	its := make([]string, len(items))
	for i, it := range items {
		its[i] = core.Text(it).String()
	}
	return fmt.Sprintf("(ok %d (%s) (%s))", count, strings.Join(offs, " "), strings.Join(its, " "))
}

func execC14(in core.Sexp) string {
	text := in.Nth(1).Str()
	switch in.Head() {
	case "calc":
		return c14Calc(text)
	case "calclex":
		calc := c14Calc(text)
		offs, ok := parser.VerifParamMarkerOffsets(text)
		if !ok {
			return "(r " + calc + " lexfail)"
		}
		var b strings.Builder
		b.WriteString("(lex")
		for _, o := range offs {
			fmt.Fprintf(&b, " %d", o)
		}
		b.WriteString(")")
		return "(r " + calc + " " + b.String() + ")"
	}
	return "bad"
}

// ---- generator ----

var c14Plain = []string{"select ", "a", " t1", ", ", " = ", " ", "\n", "(", ")", "1", "-", "*", "/", " from ", " where ", "y", "42", ".", "@v", "<", "+", "\t"}

// inside /*! … */ when the text is also shown to /repo's parser: the parser cuts
// the special comment at the first "*/" and computes offsets from the first
// blank, so no nested comments, no "*/" in literals, no line breaks there
var c14PlainInVer = []string{"select ", "a", " t1", ", ", " = ", " ", "(", ")", "1", " from ", "y", "42", ".", "<", "+"}

// pieces that may appear inside a quoted string delimited by q
func c14StrBody(g *core.Gen, q byte, forParser bool) string {
	var b strings.Builder
	n := g.Intn(5)
	for i := 0; i < n; i++ {
		switch g.Intn(14) {
		case 0, 1:
			b.WriteString("?")
		case 2:
			b.WriteString("\\" + string(q))
		case 3:
			b.WriteString("\\\\")
		case 4:
			b.WriteString(string(q) + string(q))
		case 5:
			b.WriteString("\\?")
		case 6:
			if q == '\'' {
				b.WriteString("\"")
			} else {
				b.WriteString("'")
			}
		case 7:
			b.WriteString("`")
		case 8:
			if forParser {
				b.WriteString(core.Pick(g, []string{"-- ", "#", "--"}))
			} else {
				b.WriteString(core.Pick(g, []string{"-- ", "#", "/*", "/* ", "--"}))
			}
		case 9:
			if !forParser { // "*/" inside a literal inside /*! */ is cut differently by /repo's parser
				b.WriteString("*/")
			} else {
				b.WriteString("* /")
			}
		case 10:
			b.WriteString("\n")
		case 11:
			b.WriteString(core.Pick(g, []string{"\xff", "\xe4\xb8\xad", "\x00", "\\n", "\\0", "\\%"}))
		default:
			b.WriteString(core.Pick(g, []string{"a", "it", " ", "s", "0"}))
		}
	}
	return b.String()
}

func c14Ident(g *core.Gen) string {
	var b strings.Builder
	n := 1 + g.Intn(4)
	for i := 0; i < n; i++ {
		switch g.Intn(8) {
		case 0, 1:
			b.WriteString("?")
		case 2:
			b.WriteString("``")
		case 3:
			b.WriteString(core.Pick(g, []string{"'", "\"", "\\", "-- ", "#", "/*"}))
		default:
			b.WriteString(core.Pick(g, []string{"a", "b c", "t"}))
		}
	}
	return b.String()
}

func c14CommentBody(g *core.Gen, block bool) string {
	var b strings.Builder
	n := g.Intn(5)
	for i := 0; i < n; i++ {
		switch g.Intn(9) {
		case 0, 1, 2:
			b.WriteString("?")
		case 3:
			b.WriteString(core.Pick(g, []string{"'", "\"", "`", "\\"}))
		case 4:
			if block {
				b.WriteString(core.Pick(g, []string{"*", "/", "/*", "* /", "\n", "**"}))
			} else {
				b.WriteString(core.Pick(g, []string{"*/", "/*", "--", "#"}))
			}
		default:
			b.WriteString(core.Pick(g, []string{"a", " ", "x=", "1"}))
		}
	}
	return b.String()
}

// c14Element returns one lexical element and a tag; depth limits /*! */ nesting.
func c14Element(g *core.Gen, forParser bool, inVer bool) (string, string) {
	if forParser && inVer {
		switch g.Intn(8) {
		case 0, 1, 2:
			return "?", "marker"
		case 3:
			return "'" + c14StrBody(g, '\'', true) + "'", "sq-string"
		case 4:
			return "\"" + c14StrBody(g, '"', true) + "\"", "dq-string"
		case 5:
			return "`a?`", "quoted-ident"
		default:
			return core.Pick(g, c14PlainInVer), ""
		}
	}
	switch g.Intn(16) {
	case 0, 1, 2, 3:
		return "?", "marker"
	case 4, 5:
		return "'" + c14StrBody(g, '\'', forParser && inVer) + "'", "sq-string"
	case 6:
		return "\"" + c14StrBody(g, '"', forParser && inVer) + "\"", "dq-string"
	case 7:
		if forParser && inVer {
			return "`a?`", "quoted-ident"
		}
		return "`" + c14Ident(g) + "`", "quoted-ident"
	case 8:
		if inVer && forParser {
			return " ", ""
		}
		end := "\n"
		if g.Intn(6) == 0 {
			end = ""
		}
		return "--" + core.Pick(g, []string{" ", "\t", " ", "\n"}) + c14CommentBody(g, false) + end, "dash-comment"
	case 9:
		if g.Intn(2) == 0 {
			return "--" + core.Pick(g, []string{"?", "1", "a", "-"}), "dash-not-comment"
		}
		return "-" + core.Pick(g, []string{"?", " -", "1"}), "dash-not-comment"
	case 10:
		if inVer && forParser {
			return " ", ""
		}
		end := "\n"
		if g.Intn(6) == 0 {
			end = ""
		}
		return "#" + c14CommentBody(g, false) + end, "hash-comment"
	case 11:
		body := c14CommentBody(g, true)
		if strings.HasPrefix(body, "!") || strings.HasPrefix(body, "+") {
			body = " " + body
		}
		if forParser && (inVer || strings.HasPrefix(body, "+")) {
			body = " c "
		}
		return "/*" + body + "*/", "block-comment"
	case 12:
		if inVer {
			return "*", ""
		}
		var b strings.Builder
		b.WriteString("/*!")
		if g.Intn(2) == 0 {
			b.WriteString(core.Pick(g, []string{"40101", "50000", "80000"}))
		}
		if forParser || g.Intn(3) > 0 {
			b.WriteString(" ")
		}
		n := 1 + g.Intn(4)
		for i := 0; i < n; i++ {
			e, _ := c14Element(g, forParser, true)
			b.WriteString(e)
		}
		b.WriteString(" */")
		return b.String(), "version-comment"
	default:
		return core.Pick(g, c14Plain), ""
	}
}

var c14Special = []byte{'\'', '"', '\\', '`', '?', '-', '#', '/', '*', '!', ' ', '\n', 'a'}

func genC14(g *core.Gen) {
	emit := func(kind, text string, tags ...string) {
		g.Emit(core.L(core.A(kind), core.Text(text)), tags...)
	}
	// 1. well-formed texts, observed next to the parser
	n := g.Scale(1500, 20000)
	for i := 0; i < n; i++ {
		var b strings.Builder
		var tags []string
		b.WriteString(core.Pick(g, []string{"select ", "", "update t set a=", "insert into t values(", " "}))
		k := 1 + g.Intn(8)
		for j := 0; j < k; j++ {
			e, tag := c14Element(g, true, false)
			b.WriteString(e)
			if tag != "" {
				tags = append(tags, tag)
			}
			if g.Intn(3) == 0 {
				b.WriteString(core.Pick(g, []string{" ", ", ", " = ", "\n"}))
			}
		}
		text := b.String()
		emit("calclex", text, append(tags, "wellformed+parser")...)
		// every truncation point of some of them: unterminated literals and comments
		if i%10 == 0 {
			for cut := 0; cut < len(text); cut++ {
				emit("calc", text[:cut], "truncated")
			}
		} else if g.Intn(3) == 0 && len(text) > 0 {
			emit("calclex", text[:g.Intn(len(text))], "truncated+parser")
		}
	}
	// 2. the same grammar without the restrictions the parser comparison needs, and corrupted
	n = g.Scale(1500, 20000)
	for i := 0; i < n; i++ {
		var b strings.Builder
		var tags []string
		k := 1 + g.Intn(8)
		for j := 0; j < k; j++ {
			e, tag := c14Element(g, false, false)
			b.WriteString(e)
			if tag != "" {
				tags = append(tags, tag)
			}
		}
		text := []byte(b.String())
		switch g.Intn(4) {
		case 0: // delete a byte
			if len(text) > 0 {
				p := g.Intn(len(text))
				text = append(text[:p:p], text[p+1:]...)
				tags = append(tags, "byte-deleted")
			}
		case 1: // insert a special byte
			p := g.Intn(len(text) + 1)
			c := core.Pick(g, c14Special)
			text = append(text[:p:p], append([]byte{c}, text[p:]...)...)
			tags = append(tags, "byte-inserted")
		}
		emit("calc", string(text), tags...)
	}
	// 3. random strings over the special bytes
	n = g.Scale(1500, 30000)
	for i := 0; i < n; i++ {
		l := g.Intn(12)
		t := make([]byte, l)
		for j := range t {
			t[j] = core.Pick(g, c14Special)
		}
		emit("calc", string(t), "special-bytes")
	}
	// 4. exhaustive small scope
	maxLen := g.Scale(4, 5)
	var rec func(prefix []byte)
	rec = func(prefix []byte) {
		emit("calc", string(prefix), "exhaustive")
		if len(prefix) == maxLen {
			return
		}
		for _, c := range c14Special {
			rec(append(prefix[:len(prefix):len(prefix)], c))
		}
	}
	rec(nil)
}
