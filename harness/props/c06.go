package props

import (
	"encoding/json"
	"fmt"
	"sort"
	"strings"
	"sync"
	"unicode/utf8"

	"gaeaverif/harness/core"

	"github.com/XiaoMi/Gaea/models"
	"github.com/XiaoMi/Gaea/parser"
	"github.com/XiaoMi/Gaea/parser/ast"
	"github.com/XiaoMi/Gaea/proxy/plan"
	"github.com/XiaoMi/Gaea/proxy/server"
)

// C06 — the token pre-check preBuildUnshardPlan versus the parser-based
// analysis plan.BuildPlan.
//
// Line: (fp (rules (DB TABLE KIND)…) (phy (DB PHY)…) (db DB) (st TYPE) (sql SQL) (full KIND) (tabs (SCHEMA NAME)…))
//   rules/phy describe the namespace (Exec builds it with NewNamespace and checks
//   that the router holds exactly these rules); TYPE = parser.Preview(SQL) and
//   full = the outcome of parser + plan.BuildPlan, both computed when the line is
//   generated; Exec recomputes and reports them.  tabs = the TableName nodes the
//   parser reports, in visiting order, as written (the model runs plan.Checker's
//   scan on them; Exec reports what the real Checker finds).
// Output: ((st TYPE) (tok TOKEN…) (pre U DB | pre N) (full KIND) (asm T) (chk nodb|shard|unshard))

func init() {
	core.Register(&core.Property{
		ID: "C06",
		Rule: "token-level grammar: SELECT (comma joins, JOIN … ON, sub-queries in FROM and WHERE, UNION, several FROMs), INSERT/REPLACE (with and " +
			"without INTO, column lists, `(` glued to the table, INSERT … SELECT), UPDATE (aliases, multi-table, modifiers), DELETE (multi-table, USING), " +
			"over a vocabulary of sharded, linked, global, other-database and unsharded tables in varying letter case, with and without schema qualification " +
			"and back-quotes, comments and line breaks glued to names, x namespaces (rules in two databases, no rules, renamed physical databases, odd table names) " +
			"x session databases (with rules, without, none); plus token soup; non-trivial = the pre-check answered unshard or the parser saw a sharded table",
		Generate: genC06,
		Exec:     execC06,
		Trivial: func(in core.Sexp, out string) bool {
			return !(strings.Contains(out, "(pre U") || strings.Contains(out, "(full shard"))
		},
		Assumptions: []string{
			"statement texts are valid UTF-8 and contain no cased non-ASCII letters other than U+0130, U+212A, U+017F",
			"parser.Preview's statement kind and the parser-based analysis (parser + plan.BuildPlan / plan.Checker) are taken as given: they are the reference the pre-check is compared with",
			"parser_tables_are_words: every table name the parser reports for a statement is a maximal run of identifier characters of its text (checked on every generated statement: field asm of the output)",
		},
	})
}

type c06Rule struct{ DB, Table, Kind, Parent string }

type c06Cfg struct {
	name  string
	rules []c06Rule
	dbs   []string          // allowed databases
	phy   map[string]string // default_phy_dbs (nil: none configured)
}

var c06Cfgs = []c06Cfg{
	{name: "A", dbs: []string{"db_ks", "db_other", "db_plain"}, rules: []c06Rule{
		{"db_ks", "t_shard", "hash", ""}, {"db_ks", "T_Mixed", "hash", ""}, {"db_ks", "t_child", "linked", "t_shard"},
		{"db_ks", "t_global", "global", ""}, {"db_other", "t_o", "hash", ""}}},
	{name: "B", dbs: []string{"db_ks", "db_plain"}},
	{name: "C", dbs: []string{"db_ks", "db_plain"}, phy: map[string]string{"db_ks": "db_ks_phy", "db_plain": "db_plain"}, rules: []c06Rule{
		{"db_ks", "t_shard", "hash", ""}, {"db_ks", "t_global", "global", ""}}},
	{name: "D", dbs: []string{"db_ks", "db_plain"}, rules: []c06Rule{
		{"db_ks", "t$1", "hash", ""}, {"db_ks", "表", "hash", ""}, {"db_ks", "t1", "hash", ""}, {"db_ks", "k", "hash", ""}, {"db_ks", "i", "global", ""},
		// every digit and both ends of the letter ranges inside a name (identifier-character boundaries)
		{"db_ks", "t_2020", "hash", ""}, {"db_ks", "az_0189_AZ", "hash", ""}}},
}

type c06Env struct {
	vs    *server.VerifSession
	rules [][2]string // router keys, sorted
	phy   [][2]string
}

var (
	c06Mu   sync.Mutex
	c06Envs = map[string]*c06Env{}
)

func c06Namespace(c *c06Cfg) *models.Namespace {
	ns := &models.Namespace{
		Name:       "ns_c06",
		Online:     true,
		AllowedDBS: map[string]bool{},
		Slices: []*models.Slice{
			{Name: "slice-0", UserName: "root", Password: "root", Master: "127.0.0.1:3306", Capacity: 2, MaxCapacity: 4, IdleTimeout: 3600},
			{Name: "slice-1", UserName: "root", Password: "root", Master: "127.0.0.1:3307", Capacity: 2, MaxCapacity: 4, IdleTimeout: 3600}},
		Users:         []*models.User{{UserName: "u", Password: "p", Namespace: "ns_c06", RWFlag: 2, RWSplit: 1}},
		DefaultSlice:  "slice-0",
		DefaultPhyDBS: c.phy,
	}
	for _, d := range c.dbs {
		ns.AllowedDBS[d] = true
	}
	for _, r := range c.rules {
		sh := &models.Shard{DB: r.DB, Table: r.Table, Type: r.Kind, Key: "id"}
		switch r.Kind {
		case "linked":
			sh.ParentTable = r.Parent
		default:
			sh.Locations = []int{2, 2}
			sh.Slices = []string{"slice-0", "slice-1"}
		}
		ns.ShardRules = append(ns.ShardRules, sh)
	}
	return ns
}

func c06EnvFor(c *c06Cfg) (*c06Env, error) {
	rwQuietLog()
	c06Mu.Lock()
	defer c06Mu.Unlock()
	if e, ok := c06Envs[c.name]; ok {
		return e, nil
	}
	data, err := json.Marshal(c06Namespace(c))
	if err != nil {
		return nil, err
	}
	vs, err := server.VerifNewSession(string(data), "u", "")
	if err != nil {
		return nil, err
	}
	e := &c06Env{vs: vs}
	for db, tables := range vs.Namespace().GetRouter().GetAllRules() {
		for t := range tables {
			e.rules = append(e.rules, [2]string{db, t})
		}
	}
	sort.Slice(e.rules, func(i, j int) bool { return e.rules[i][0]+"\x00"+e.rules[i][1] < e.rules[j][0]+"\x00"+e.rules[j][1] })
	for db, p := range vs.Namespace().GetPhysicalDBs() {
		e.phy = append(e.phy, [2]string{db, p})
	}
	sort.Slice(e.phy, func(i, j int) bool { return e.phy[i][0] < e.phy[j][0] })
	c06Envs[c.name] = e
	return e, nil
}

func c06CfgByRules(rules core.Sexp, phy core.Sexp) *c06Cfg {
	// the configuration is identified by its rule list and physical databases
	for i := range c06Cfgs {
		c := &c06Cfgs[i]
		if c06RulesSexp(c).String() == rules.String() {
			e, err := c06EnvFor(c)
			if err == nil && c06PhySexp(e).String() == phy.String() {
				return c
			}
		}
	}
	return nil
}

func c06RulesSexp(c *c06Cfg) core.Sexp {
	xs := []core.Sexp{core.A("rules")}
	for _, r := range c.rules {
		xs = append(xs, core.L(core.Text(r.DB), core.Text(r.Table), core.A(r.Kind)))
	}
	return core.L(xs...)
}

func c06PhySexp(e *c06Env) core.Sexp {
	xs := []core.Sexp{core.A("phy")}
	for _, p := range e.phy {
		xs = append(xs, core.L(core.Text(p[0]), core.Text(p[1])))
	}
	return core.L(xs...)
}

type c06TableCollector struct {
	names []string
	tabs  [][2]string
}

func (c *c06TableCollector) Enter(n ast.Node) (ast.Node, bool) {
	if t, ok := n.(*ast.TableName); ok {
		c.names = append(c.names, t.Name.O)
		if t.Schema.O != "" {
			c.names = append(c.names, t.Schema.O)
		}
		c.tabs = append(c.tabs, [2]string{t.Schema.O, t.Name.O})
	}
	return n, false
}
func (c *c06TableCollector) Leave(n ast.Node) (ast.Node, bool) { return n, true }

func c06IsIdent(r rune) bool {
	return r == '_' || r == '$' || r >= 0x80 || ('0' <= r && r <= '9') || ('a' <= r && r <= 'z') || ('A' <= r && r <= 'Z')
}

// c06Full runs the parser-based analysis: the kind of plan BuildPlan returns,
// and whether every table/schema name the parser reports is a word of the text.
func c06Full(e *c06Env, db, sql string) (kind string, asm bool, tabs [][2]string, chk string) {
	defer func() {
		if r := recover(); r != nil {
			kind, asm = "panic", true
		}
	}()
	asm = true
	chk = "unshard"
	stmt, err := parser.New().ParseOneStmt(sql, "", "")
	if err != nil {
		return "parse-err", true, nil, chk
	}
	col := &c06TableCollector{}
	stmt.Accept(col)
	words := map[string]bool{}
	for _, w := range strings.FieldsFunc(sql, func(r rune) bool { return !c06IsIdent(r) }) {
		words[w] = true
	}
	for _, n := range col.names {
		if !words[n] {
			asm = false
		}
	}
	tabs = col.tabs
	ns := e.vs.Namespace()
	checker := plan.NewChecker(db, ns.GetRouter())
	stmt.Accept(checker)
	switch {
	case checker.IsDatabaseInvalid():
		chk = "nodb"
	case checker.IsShard():
		chk = "shard"
	}
	stmt2, err := parser.New().ParseOneStmt(sql, "", "")
	if err != nil {
		return "parse-err", asm, tabs, chk
	}
	p, err := plan.BuildPlan(stmt2, ns.GetPhysicalDBs(), db, sql, ns.GetRouter(), ns.GetSequences(), nil)
	if err != nil {
		switch {
		case checker.IsDatabaseInvalid():
			return "nodb", asm, tabs, chk
		case checker.IsShard():
			return "shard-err", asm, tabs, chk
		}
		return "err", asm, tabs, chk
	}
	switch p.(type) {
	case *plan.UnshardPlan:
		return "unshard", asm, tabs, chk
	case *plan.SelectPlan, *plan.InsertPlan, *plan.UpdatePlan, *plan.DeletePlan, *plan.UnionPlan:
		return "shard", asm, tabs, chk
	case *plan.ExplainPlan:
		if checker.IsShard() {
			return "shard", asm, tabs, chk
		}
		return "other", asm, tabs, chk
	}
	return "other", asm, tabs, chk
}

func c06TabsSexp(tabs [][2]string) core.Sexp {
	xs := []core.Sexp{core.A("tabs")}
	for _, t := range tabs {
		xs = append(xs, core.L(core.Text(t[0]), core.Text(t[1])))
	}
	return core.L(xs...)
}

func execC06(in core.Sexp) string {
	if in.Head() != "fp" {
		return "bad"
	}
	c := c06CfgByRules(in.Nth(1), in.Nth(2))
	if c == nil {
		return "(err config)"
	}
	e, err := c06EnvFor(c)
	if err != nil {
		return "(err config)"
	}
	db := in.Nth(3).Nth(1).Str()
	sql := in.Nth(5).Nth(1).Str()
	if !utf8.ValidString(sql) {
		return "bad"
	}
	c06Mu.Lock()
	defer c06Mu.Unlock()
	st := parser.Preview(sql)
	isUnshard, planDB, tokens := e.vs.VerifPreBuildUnshardPlan(st, db, sql)
	pre := "(pre N)"
	if isUnshard {
		pre = fmt.Sprintf("(pre U %s)", core.Text(planDB))
	}
	full, asm, tabs, chk := c06Full(e, db, sql)
	if c06TabsSexp(tabs).String() != in.Nth(7).String() {
		// the parser no longer reports the tables the line was generated with
		return fmt.Sprintf("(tabs-changed %s)", c06TabsSexp(tabs))
	}
	return fmt.Sprintf("((st %d) %s %s (full %s) (asm %s) (chk %s))", st, c22Tokens(tokens), pre, full, core.B(asm), chk)
}

// ---- generator ----

type c06Gen struct {
	g      *core.Gen
	tables []string // vocabulary for this configuration
}

func (x *c06Gen) pick(xs ...string) string { return xs[x.g.Intn(len(xs))] }

func (x *c06Gen) recase(s string) string {
	switch x.g.Intn(6) {
	case 0:
		return strings.ToUpper(s)
	case 1:
		b := []rune(s)
		for i, r := range b {
			if x.g.Intn(2) == 0 && r >= 'a' && r <= 'z' {
				b[i] = r - 32
			}
		}
		return string(b)
	case 2:
		// the two non-ASCII letters whose lower case is ASCII
		if x.g.Intn(4) == 0 {
			s = strings.Replace(s, "k", "K", 1)
			s = strings.Replace(s, "i", "İ", 1)
		}
	}
	return s
}

// a table reference: vocabulary name x letter case x quoting x schema
func (x *c06Gen) table() string {
	name := x.recase(core.Pick(x.g, x.tables))
	q := func(s string) string {
		if x.g.Intn(3) == 0 {
			return "`" + s + "`"
		}
		return s
	}
	switch x.g.Intn(7) {
	case 0:
		return q(x.pick("db_ks", "db_other", "db_plain", "DB_KS", "nodb")) + "." + q(name)
	case 1:
		return q(x.pick("db_ks", "db_other")) + x.pick(" . ", ". ", " .") + q(name)
	}
	return q(name)
}

// the glue between a keyword and a table name
func (x *c06Gen) glue(tbl string) string {
	switch x.g.Intn(12) {
	case 0:
		return "\n" + tbl
	case 1:
		return "/*c*/" + tbl
	case 2:
		return " /* c */ " + tbl
	case 3:
		if strings.HasPrefix(tbl, "`") {
			return tbl
		}
		return "\t" + tbl
	case 4:
		return " (" + tbl + ")"
	case 5:
		return "  " + tbl
	case 6:
		return " -- c\n" + tbl
	}
	return " " + tbl
}

func (x *c06Gen) alias() string {
	return x.pick("", "", " a", " as a", " AS `a`")
}

func (x *c06Gen) where() string {
	switch x.g.Intn(8) {
	case 0:
		return ""
	case 1:
		return " where id in (select id from" + x.glue(x.table()) + ")"
	case 2:
		return " where exists (select 1 from" + x.glue(x.table()) + " where 1=1)"
	case 3:
		return " where note = '" + core.Pick(x.g, x.tables) + "'"
	case 4:
		return " where id = 1 /* " + core.Pick(x.g, x.tables) + " */"
	}
	return x.pick(" where id = 1", " where id=1 and name='x'", " WHERE id > 5 order by id limit 3", " where a.id = 3")
}

func (x *c06Gen) fromList() string {
	s := x.glue(x.table()) + x.alias()
	switch x.g.Intn(10) {
	case 0, 1:
		s += x.pick(",", ", ", " , ", ",\n") + x.table() + x.alias()
	case 2, 3:
		s += x.pick(" join ", " left join ", " inner join ", " JOIN ", " straight_join ", " join\n") + x.table() + x.pick(" b", "") + x.pick(" on 1=1", " using (id)", "")
	case 4:
		s = x.pick(" (select * from", " (select id from") + x.glue(x.table()) + ") x"
	case 5:
		s += "," + x.table() + "," + x.table()
	}
	return s
}

func (x *c06Gen) selectStmt() string {
	s := x.pick("select", "SELECT", "Select", "select distinct", "select /* c */", "/* c */ select", "-- c\nselect", "select\n") +
		x.pick(" *", " id, name", " count(*)", " a.*", " `from`", " 1") + x.pick(" from", " FROM", " From", "\nfrom") + x.fromList() + x.where()
	switch x.g.Intn(10) {
	case 0:
		s += x.pick(" union ", " union all ", " UNION\n") + "select * from" + x.glue(x.table())
	case 1:
		s = "(" + s + ")"
	case 2:
		s += x.pick(" for update", " lock in share mode", ";", " /* t_shard */", " -- t_shard")
	}
	return s
}

func (x *c06Gen) insertStmt() string {
	kw := x.pick("insert", "INSERT", "replace", "Replace", "insert ignore", "insert low_priority", "/*c*/ insert")
	into := x.pick(" into", " INTO", " into", "", "\ninto")
	t := x.table()
	cols := x.pick("", "(id, name)", " (id, name)", "(id,name)")
	if cols != "" && x.g.Intn(2) == 0 {
		t += cols
		cols = ""
	} else {
		t += cols
	}
	vals := x.pick(" values (1, 'a')", " VALUES(1,'a')", "values(1,'a')", " set id = 1", " select * from"+x.glue(x.table()), " value (1, 'x'),(2, 't_shard')")
	sp := " "
	if into == "" && x.g.Intn(3) == 0 {
		sp = "\n"
	}
	return kw + into + sp + t + vals
}

func (x *c06Gen) updateStmt() string {
	kw := x.pick("update", "UPDATE", "update low_priority", "update ignore", "/*c*/update")
	t := x.table() + x.alias()
	switch x.g.Intn(8) {
	case 0:
		t += ", " + x.table()
	case 1:
		t += " join " + x.table() + " b on 1=1"
	case 2:
		t = x.table() + x.pick("\n", "/*c*/", " ")
		return kw + " " + t + "set name = 'x'" + x.where()
	}
	return kw + x.glue(t) + x.pick(" set", " SET", "\nset", " Set") + x.pick(" name = 'x'", " name='x', v = v + 1", " a.name = (select name from"+x.glue(x.table())+" limit 1)") + x.where()
}

func (x *c06Gen) deleteStmt() string {
	kw := x.pick("delete", "DELETE", "delete low_priority", "delete quick")
	switch x.g.Intn(6) {
	case 0:
		return kw + " a from" + x.glue(x.table()) + " a join " + x.table() + " b on 1=1" + x.where()
	case 1:
		return kw + " from " + x.table() + " using " + x.table() + " join " + x.table() + x.where()
	case 2:
		return kw + " " + x.table() + " from" + x.glue(x.table()) + "," + x.table()
	}
	return kw + x.pick(" from", " FROM", "\nfrom") + x.glue(x.table()) + x.where()
}

func (x *c06Gen) other() string {
	return x.pick("select 1", "select last_insert_id()", "select LAST_INSERT_ID( )", "select last_insert_id() as x", "select database()", "select now() from dual",
		"show tables", "show create table "+x.table(), "explain select * from "+x.table(), "desc "+x.table(), "truncate table "+x.table(),
		"set names utf8", "begin", "use db_ks", "/*!40101 select * from "+x.table()+" */", "select * from", "select * from ", "from "+x.table(),
		"", " ", "select", "insert into", "update set", "update "+x.table(), "delete from", "lock tables "+x.table()+" read", "create table x like "+x.table(),
		"select 't_shard'", "select * from u where x = \"from t_shard\"", "load data infile 'x' into table "+x.table(), "call p()", "alter table "+x.table()+" add c int",
		"select * from u into outfile 'x'", "select * into @a from "+x.table(), "with c as (select * from "+x.table()+") select * from c",
		"select * from u partition (p0), "+x.table(), "table "+x.table(), "values row(1)", "select * from u natural join "+x.table())
}

var c06Soup = []string{"select", "from", "into", "set", "update", "insert", "replace", "delete", "join", "where", "values", ",", " ", " ", "\n", "(", ")", "`", ".", "*", "/*", "*/", "--", "'", "=", "1", ";",
	"t_shard", "T_SHARD", "t_global", "t_child", "u", "db_ks", "db_ks.t_shard", "`t_shard`", "t_mixed", "x", "as", "on"}

func (x *c06Gen) soup() string {
	var b strings.Builder
	b.WriteString(x.pick("select ", "insert ", "update ", "delete ", "replace ", "", "SELECT\t"))
	n := 1 + x.g.Intn(10)
	for i := 0; i < n; i++ {
		b.WriteString(core.Pick(x.g, c06Soup))
		if x.g.Intn(2) == 0 {
			b.WriteString(" ")
		}
	}
	return b.String()
}

func c06Vocabulary(c *c06Cfg) []string {
	v := []string{"u", "u2", "plain", "t", "xt_shard", "t_shard_x", "t_shard2", "from_t", "settings", "t_glob", "dual"}
	for _, r := range c.rules {
		// sharded names several times: they are what the property is about
		v = append(v, r.Table, r.Table, strings.ToLower(r.Table))
	}
	if len(c.rules) == 0 {
		v = append(v, "t_shard", "t_global")
	}
	return v
}

func c06Line(e *c06Env, c *c06Cfg, db, sql string) core.Sexp {
	full, _, tabs, _ := c06Full(e, db, sql)
	return core.L(core.A("fp"), c06RulesSexp(c), c06PhySexp(e),
		core.L(core.A("db"), core.Text(db)),
		core.L(core.A("st"), core.I(int64(parser.Preview(sql)))),
		core.L(core.A("sql"), core.Text(sql)),
		core.L(core.A("full"), core.A(full)),
		c06TabsSexp(tabs))
}

// the probed defects of the pinned tree (DESIGN.md C06): statement templates, %s = a sharded table
var c06Probed = []string{
	"select * from %S", "select * from u, %s", "select * from u join %s on u.id = %s.id", "select * from (select * from %s) x",
	"select * from`%s`", "select * from u where id in (select id from %s)", "select * from/*c*/%s", "select * from\n%s", "select * from %s",
	"insert %s values (1)", "insert into`%s` values (1)", "insert into %s(id) values (1)", "insert into u select * from %s", "replace %S set id = 1",
	"update %S set a = 1", "update u, %s set u.a = 1", "update u join %s on 1=1 set u.a = 1", "update %s\nset a = 1", "update %s a set a.x = 1",
	"delete a from u a join %s b on 1=1", "delete from %S where id = 1", "delete from u where id in (select id from %s)",
	"select * from u union select * from %s", "select * from db_ks.%S", "select * from `db_ks`.`%s`, u", "select * from DB_KS.%s",
}

func genC06(g *core.Gen) {
	for i := range c06Cfgs {
		c := &c06Cfgs[i]
		e, err := c06EnvFor(c)
		if err != nil {
			panic(err)
		}
		x := &c06Gen{g: g, tables: c06Vocabulary(c)}
		dbs := []string{"db_ks", "db_ks", "db_ks", "db_other", "db_plain", "", "DB_KS"}
		emit := func(sql string, tag string) {
			db := core.Pick(g, dbs)
			line := c06Line(e, c, db, sql)
			full := line.Nth(6).Nth(1).Atom
			pre := "N"
			if ok, _, _ := e.vs.VerifPreBuildUnshardPlan(parser.Preview(sql), db, sql); ok {
				pre = "U"
			}
			g.Emit(line, "cfg:"+c.name, tag, "db:"+db, "full:"+full, "pre:"+pre+"/full:"+full, "stmt:"+parser.StmtType(parser.Preview(sql)))
		}
		for _, r := range c.rules {
			for _, tpl := range c06Probed {
				sql := strings.ReplaceAll(strings.ReplaceAll(tpl, "%S", strings.ToUpper(r.Table)), "%s", strings.ToLower(r.Table))
				for _, db := range []string{"db_ks", ""} {
					line := c06Line(e, c, db, sql)
					g.Emit(line, "cfg:"+c.name, "probed", "full:"+line.Nth(6).Nth(1).Atom)
				}
			}
		}
		n := g.Scale(350, 5000)
		for i := 0; i < n; i++ {
			emit(x.selectStmt(), "select")
			if i%2 == 0 {
				emit(x.insertStmt(), "insert")
				emit(x.updateStmt(), "update")
			} else {
				emit(x.deleteStmt(), "delete")
				if i%4 == 1 {
					emit(x.other(), "other")
				} else {
					emit(x.soup(), "soup")
				}
			}
		}
	}
}
