package props

import (
	"encoding/json"
	"fmt"
	"sort"
	"strings"
	"sync"
	"unicode"
	"unicode/utf8"

	"gaeaverif/harness/core"

	"github.com/XiaoMi/Gaea/models"
	"github.com/XiaoMi/Gaea/parser"
	"github.com/XiaoMi/Gaea/parser/ast"
	"github.com/XiaoMi/Gaea/proxy/plan"
	"github.com/XiaoMi/Gaea/proxy/server"
)

// C06 — the token pre-check preBuildUnshardPlan versus the parser-based
// analysis plan.BuildPlan.
//
// Line: (fp (rules (DB TABLE KIND)…) (phy (DB PHY)…) (db DB) (st TYPE) (sql SQL) (full KIND) (tabs (SCHEMA NAME)…) [(segs SEG…)])
//   rules/phy describe the namespace (Exec builds it with NewNamespace and checks
//   that the router holds exactly these rules); TYPE = parser.Preview(SQL) and
//   full = the outcome of parser + plan.BuildPlan, both computed when the line is
//   generated; Exec recomputes and reports them.  tabs = the TableName nodes the
//   parser reports, in visiting order, as written (the model runs plan.Checker's
//   scan on them; Exec reports what the real Checker finds).
//   segs (statements generated from the grammar of lean/GaeaVerif/Model/TabRefC06.lean): the
//   statement as segments — (t TEXT), (v t|f DIGITS) = "/*!" + optional M + version digits,
//   (r Q NAME), (rs Q SCHEMA GAP Q NAME) table references, Q = b bare | q back-quoted, NAME as
//   the parser is expected to report it; the model renders them and checks the text is SQL.
// Output: ((st TYPE) (tok TOKEN…) (pre U DB | pre N) (full KIND) (asm T) (chk nodb|shard|unshard) (gram T|-))
//   asm: the real word scan of MentionsShardTable sees every table name the parser reports;
//   gram: the parser reports exactly the references of the segments (when the statement parses).

func init() {
	core.Register(&core.Property{
		ID: "C06",
		Rule: "statements built from a grammar of segments (text, table references, executable-comment openings): SELECT (comma joins, JOIN … ON, " +
			"sub-queries in FROM and WHERE, UNION, several FROMs), INSERT/REPLACE (with and without INTO, column lists, `(` glued to the table, INSERT … SELECT), " +
			"UPDATE (aliases, multi-table, modifiers), DELETE (multi-table, USING), LOCK/TRUNCATE/RENAME/CREATE … LIKE/EXPLAIN/DESCRIBE/SHOW COLUMNS/HANDLER, " +
			"over a vocabulary of sharded, linked, global, other-database and unsharded tables (names that need quoting: spaces, dashes, dots, back-quotes; " +
			"non-ASCII names; sub-table names tbl_0001) in varying letter case, bare or back-quoted with doubled back-quotes, with and without schema " +
			"qualification (blanks and comments around the dot), glued to punctuation, comments, line breaks, Unicode white space, the version number of an " +
			"executable comment, inside /*!NNNNN … */ and beside string literals that hold comment marks, x namespaces (rules in two databases, no rules, " +
			"renamed physical databases, odd table names, names that are not one word) x session databases (with rules, without, none); plus token soup; " +
			"non-trivial = the pre-check answered unshard or the parser saw a sharded table",
		Generate: genC06,
		Exec:     execC06,
		Trivial: func(in core.Sexp, out string) bool {
			return !(strings.Contains(out, "(pre U") || strings.Contains(out, "(full shard"))
		},
		Assumptions: []string{
			"statement texts are valid UTF-8 and contain no cased non-ASCII letters other than U+0130, U+212A, U+017F",
			"parser.Preview's statement kind and the parser-based analysis (parser + plan.BuildPlan / plan.Checker) are taken as given: they are the reference the pre-check is compared with",
			"the parser reports, for a statement rendered from the segment grammar of Model/TabRefC06.lean, the table references of the segments (checked on every statement generated from the grammar: field gram); for the other generated statements: the word scan sees every table name the parser reports (field asm; a theorem for statements of the grammar)",
		},
	})
}

type c06Rule struct{ DB, Table, Kind, Parent string }

type c06Cfg struct {
	name  string
	rules []c06Rule
	dbs   []string          // allowed databases
	phy   map[string]string // default_phy_dbs (nil: none configured)
}

var c06Cfgs = []c06Cfg{
	{name: "A", dbs: []string{"db_ks", "db_other", "db_plain"}, rules: []c06Rule{
		{"db_ks", "t_shard", "hash", ""}, {"db_ks", "T_Mixed", "hash", ""}, {"db_ks", "t_child", "linked", "t_shard"},
		{"db_ks", "t_global", "global", ""}, {"db_other", "t_o", "hash", ""}}},
	{name: "B", dbs: []string{"db_ks", "db_plain"}},
	{name: "C", dbs: []string{"db_ks", "db_plain"}, phy: map[string]string{"db_ks": "db_ks_phy", "db_plain": "db_plain"}, rules: []c06Rule{
		{"db_ks", "t_shard", "hash", ""}, {"db_ks", "t_global", "global", ""}}},
	{name: "D", dbs: []string{"db_ks", "db_plain"}, rules: []c06Rule{
		{"db_ks", "t$1", "hash", ""}, {"db_ks", "表", "hash", ""}, {"db_ks", "t1", "hash", ""}, {"db_ks", "k", "hash", ""}, {"db_ks", "i", "global", ""},
		// every digit and both ends of the letter ranges inside a name (identifier-character boundaries)
		{"db_ks", "t_2020", "hash", ""}, {"db_ks", "az_0189_AZ", "hash", ""}}},
	// names that are not one word (they must be quoted), next to an ordinary one
	{name: "E", dbs: []string{"db_ks", "db_plain"}, rules: []c06Rule{
		{"db_ks", "t_shard", "hash", ""}, {"db_ks", "Order-Items", "hash", ""}, {"db_ks", "my table", "hash", ""}, {"db_ks", "a`b", "hash", ""},
		{"db_ks", "x.y.z", "hash", ""}, {"db_ks", "t 表", "global", ""}}},
}

type c06Env struct {
	vs    *server.VerifSession
	rules [][2]string // router keys, sorted
	phy   [][2]string
}

var (
	c06Mu   sync.Mutex
	c06Envs = map[string]*c06Env{}
)

func c06Namespace(c *c06Cfg) *models.Namespace {
	ns := &models.Namespace{
		Name:       "ns_c06",
		Online:     true,
		AllowedDBS: map[string]bool{},
		Slices: []*models.Slice{
			{Name: "slice-0", UserName: "root", Password: "root", Master: "127.0.0.1:3306", Capacity: 2, MaxCapacity: 4, IdleTimeout: 3600},
			{Name: "slice-1", UserName: "root", Password: "root", Master: "127.0.0.1:3307", Capacity: 2, MaxCapacity: 4, IdleTimeout: 3600}},
		Users:         []*models.User{{UserName: "u", Password: "p", Namespace: "ns_c06", RWFlag: 2, RWSplit: 1}},
		DefaultSlice:  "slice-0",
		DefaultPhyDBS: c.phy,
	}
	for _, d := range c.dbs {
		ns.AllowedDBS[d] = true
	}
	for _, r := range c.rules {
		sh := &models.Shard{DB: r.DB, Table: r.Table, Type: r.Kind, Key: "id"}
		switch r.Kind {
		case "linked":
			sh.ParentTable = r.Parent
		default:
			sh.Locations = []int{2, 2}
			sh.Slices = []string{"slice-0", "slice-1"}
		}
		ns.ShardRules = append(ns.ShardRules, sh)
	}
	return ns
}

func c06EnvFor(c *c06Cfg) (*c06Env, error) {
	rwQuietLog()
	c06Mu.Lock()
	defer c06Mu.Unlock()
	if e, ok := c06Envs[c.name]; ok {
		return e, nil
	}
	data, err := json.Marshal(c06Namespace(c))
	if err != nil {
		return nil, err
	}
	vs, err := server.VerifNewSession(string(data), "u", "")
	if err != nil {
		return nil, err
	}
	e := &c06Env{vs: vs}
	for db, tables := range vs.Namespace().GetRouter().GetAllRules() {
		for t := range tables {
			e.rules = append(e.rules, [2]string{db, t})
		}
	}
	sort.Slice(e.rules, func(i, j int) bool { return e.rules[i][0]+"\x00"+e.rules[i][1] < e.rules[j][0]+"\x00"+e.rules[j][1] })
	for db, p := range vs.Namespace().GetPhysicalDBs() {
		e.phy = append(e.phy, [2]string{db, p})
	}
	sort.Slice(e.phy, func(i, j int) bool { return e.phy[i][0] < e.phy[j][0] })
	c06Envs[c.name] = e
	return e, nil
}

func c06CfgByRules(rules core.Sexp, phy core.Sexp) *c06Cfg {
	// the configuration is identified by its rule list and physical databases
	for i := range c06Cfgs {
		c := &c06Cfgs[i]
		if c06RulesSexp(c).String() == rules.String() {
			e, err := c06EnvFor(c)
			if err == nil && c06PhySexp(e).String() == phy.String() {
				return c
			}
		}
	}
	return nil
}

func c06RulesSexp(c *c06Cfg) core.Sexp {
	xs := []core.Sexp{core.A("rules")}
	for _, r := range c.rules {
		xs = append(xs, core.L(core.Text(r.DB), core.Text(r.Table), core.A(r.Kind)))
	}
	return core.L(xs...)
}

func c06PhySexp(e *c06Env) core.Sexp {
	xs := []core.Sexp{core.A("phy")}
	for _, p := range e.phy {
		xs = append(xs, core.L(core.Text(p[0]), core.Text(p[1])))
	}
	return core.L(xs...)
}

type c06TableCollector struct {
	tabs [][2]string
}

func (c *c06TableCollector) Enter(n ast.Node) (ast.Node, bool) {
	if t, ok := n.(*ast.TableName); ok {
		c.tabs = append(c.tabs, [2]string{t.Schema.O, t.Name.O})
	}
	return n, false
}
func (c *c06TableCollector) Leave(n ast.Node) (ast.Node, bool) { return n, true }

func c06IsIdent(r rune) bool {
	if r >= 0x80 {
		return !unicode.IsSpace(r)
	}
	return r == '_' || r == '$' || ('0' <= r && r <= '9') || ('a' <= r && r <= 'z') || ('A' <= r && r <= 'Z')
}

// c06Full runs the parser-based analysis: the kind of plan BuildPlan returns,
// and whether the word scan of MentionsShardTable sees every table name the parser reports.
func c06Full(e *c06Env, db, sql string) (kind string, asm bool, tabs [][2]string, chk string) {
	defer func() {
		if r := recover(); r != nil {
			kind, asm = "panic", true
		}
	}()
	asm = true
	chk = "unshard"
	stmt, err := parser.New().ParseOneStmt(sql, "", "")
	if err != nil {
		return "parse-err", true, nil, chk
	}
	col := &c06TableCollector{}
	stmt.Accept(col)
	for _, t := range col.tabs {
		if !plan.VerifNameSeen(sql, t[1]) {
			asm = false
		}
	}
	tabs = col.tabs
	ns := e.vs.Namespace()
	checker := plan.NewChecker(db, ns.GetRouter())
	stmt.Accept(checker)
	switch {
	case checker.IsDatabaseInvalid():
		chk = "nodb"
	case checker.IsShard():
		chk = "shard"
	}
	stmt2, err := parser.New().ParseOneStmt(sql, "", "")
	if err != nil {
		return "parse-err", asm, tabs, chk
	}
	p, err := plan.BuildPlan(stmt2, ns.GetPhysicalDBs(), db, sql, ns.GetRouter(), ns.GetSequences(), nil)
	if err != nil {
		switch {
		case checker.IsDatabaseInvalid():
			return "nodb", asm, tabs, chk
		case checker.IsShard():
			return "shard-err", asm, tabs, chk
		}
		return "err", asm, tabs, chk
	}
	switch p.(type) {
	case *plan.UnshardPlan:
		return "unshard", asm, tabs, chk
	case *plan.SelectPlan, *plan.InsertPlan, *plan.UpdatePlan, *plan.DeletePlan, *plan.UnionPlan:
		return "shard", asm, tabs, chk
	case *plan.ExplainPlan:
		if checker.IsShard() {
			return "shard", asm, tabs, chk
		}
		return "other", asm, tabs, chk
	}
	return "other", asm, tabs, chk
}

func c06TabsSexp(tabs [][2]string) core.Sexp {
	xs := []core.Sexp{core.A("tabs")}
	for _, t := range tabs {
		xs = append(xs, core.L(core.Text(t[0]), core.Text(t[1])))
	}
	return core.L(xs...)
}

func execC06(in core.Sexp) string {
	if in.Head() != "fp" {
		return "bad"
	}
	c := c06CfgByRules(in.Nth(1), in.Nth(2))
	if c == nil {
		return "(err config)"
	}
	e, err := c06EnvFor(c)
	if err != nil {
		return "(err config)"
	}
	db := in.Nth(3).Nth(1).Str()
	sql := in.Nth(5).Nth(1).Str()
	if !utf8.ValidString(sql) {
		return "bad"
	}
	c06Mu.Lock()
	defer c06Mu.Unlock()
	st := parser.Preview(sql)
	isUnshard, planDB, tokens := e.vs.VerifPreBuildUnshardPlan(st, db, sql)
	pre := "(pre N)"
	if isUnshard {
		pre = fmt.Sprintf("(pre U %s)", core.Text(planDB))
	}
	full, asm, tabs, chk := c06Full(e, db, sql)
	if c06TabsSexp(tabs).String() != in.Nth(7).String() {
		// the parser no longer reports the tables the line was generated with
		return fmt.Sprintf("(tabs-changed %s)", c06TabsSexp(tabs))
	}
	gram := "-"
	if len(in.List) > 8 && full != "parse-err" && full != "panic" {
		gram = core.B(c06SameTables(tabs, c06SegRefs(in.Nth(8)))).Atom
	}
	return fmt.Sprintf("((st %d) %s %s (full %s) (asm %s) (chk %s) (gram %s))", st, c22Tokens(tokens), pre, full, core.B(asm), chk, gram)
}

// the (schema, name) pairs of the table references among the segments
func c06SegRefs(segs core.Sexp) [][2]string {
	var refs [][2]string
	for _, sg := range segs.List[1:] {
		switch sg.Head() {
		case "r":
			refs = append(refs, [2]string{"", sg.Nth(2).Str()})
		case "rs":
			refs = append(refs, [2]string{sg.Nth(2).Str(), sg.Nth(5).Str()})
		}
	}
	return refs
}

// the same set of (schema, name) pairs
func c06SameTables(a, b [][2]string) bool {
	in := func(xs [][2]string, x [2]string) bool {
		for _, y := range xs {
			if x == y {
				return true
			}
		}
		return false
	}
	for _, x := range a {
		if !in(b, x) {
			return false
		}
	}
	for _, x := range b {
		if !in(a, x) {
			return false
		}
	}
	return true
}

// ---- generator ----
//
// Statements are composed as strings in which every table reference and every
// executable-comment opening is a placeholder "\x01N\x02" (N indexes c06Gen.items);
// resolve() turns the string into the statement text and its segments.

type c06Item struct {
	version   bool // "/*!" + optional M + digits
	m         bool
	digits    string
	hasSchema bool
	sq        string // "b" | "q"
	schema    string
	gap       string
	q         string // "b" | "q"
	name      string
}

type c06Gen struct {
	g      *core.Gen
	tables []string // vocabulary for this configuration
	items  []c06Item
}

func (x *c06Gen) pick(xs ...string) string { return xs[x.g.Intn(len(xs))] }

func c06Ident(q, name string) string {
	if q == "q" {
		return "`" + strings.ReplaceAll(name, "`", "``") + "`"
	}
	return name
}

func (it *c06Item) render() string {
	if it.version {
		m := ""
		if it.m {
			m = "M"
		}
		return "/*!" + m + it.digits
	}
	if it.hasSchema {
		return c06Ident(it.sq, it.schema) + it.gap + c06Ident(it.q, it.name)
	}
	return c06Ident(it.q, it.name)
}

func (it *c06Item) sexp() core.Sexp {
	if it.version {
		return core.L(core.A("v"), core.B(it.m), core.Text(it.digits))
	}
	if it.hasSchema {
		return core.L(core.A("rs"), core.A(it.sq), core.Text(it.schema), core.Text(it.gap), core.A(it.q), core.Text(it.name))
	}
	return core.L(core.A("r"), core.A(it.q), core.Text(it.name))
}

func (x *c06Gen) place(it c06Item) string {
	x.items = append(x.items, it)
	return fmt.Sprintf("\x01%d\x02", len(x.items)-1)
}

// resolve: the statement text and its segments; forgets the items.
func (x *c06Gen) resolve(s string) (string, core.Sexp) {
	var sql strings.Builder
	segs := []core.Sexp{core.A("segs")}
	for len(s) > 0 {
		i := strings.IndexByte(s, 1)
		if i < 0 {
			i = len(s)
		}
		if i > 0 {
			sql.WriteString(s[:i])
			segs = append(segs, core.L(core.A("t"), core.Text(s[:i])))
			s = s[i:]
			continue
		}
		j := strings.IndexByte(s, 2)
		n := 0
		fmt.Sscanf(s[1:j], "%d", &n)
		sql.WriteString(x.items[n].render())
		segs = append(segs, x.items[n].sexp())
		s = s[j+1:]
	}
	x.items = nil
	return sql.String(), core.L(segs...)
}

// the first character a placeholder (or a plain string) renders to
func (x *c06Gen) startsQuoted(s string) bool {
	if strings.HasPrefix(s, "\x01") {
		n := 0
		fmt.Sscanf(s[1:strings.IndexByte(s, 2)], "%d", &n)
		return strings.HasPrefix(x.items[n].render(), "`")
	}
	return strings.HasPrefix(s, "`")
}

func (x *c06Gen) recase(s string) string {
	switch x.g.Intn(7) {
	case 0:
		return strings.ToUpper(s)
	case 1:
		b := []rune(s)
		for i, r := range b {
			if x.g.Intn(2) == 0 && r >= 'a' && r <= 'z' {
				b[i] = r - 32
			}
		}
		return string(b)
	case 2:
		// the two non-ASCII letters whose lower case is ASCII
		if x.g.Intn(4) == 0 {
			s = strings.Replace(s, "k", "\u212a", 1)
			s = strings.Replace(s, "i", "İ", 1)
		}
	case 3:
		// Title case: Tbl_Ks
		b := []rune(s)
		up := true
		for i, r := range b {
			if up && r >= 'a' && r <= 'z' {
				b[i] = r - 32
			}
			up = r == '_' || r == '-' || r == ' '
		}
		return string(b)
	}
	return s
}

func c06NeedsQuote(name string) bool {
	if name == "" {
		return true
	}
	for _, r := range name {
		if !c06IsIdent(r) {
			return true
		}
	}
	return false
}

var c06Gaps = []string{".", ".", ".", " . ", ". ", " .", "./**/", "/*c*/./* c */", ".\n", " -- c\n.", "\t.\t", ".\u3000"}

// a table reference (placeholder): vocabulary name x letter case x quoting x schema
func (x *c06Gen) ref(name string) string {
	it := c06Item{name: name, q: "b"}
	if c06NeedsQuote(name) || x.g.Intn(3) == 0 {
		it.q = "q"
	}
	switch x.g.Intn(7) {
	case 0, 1:
		it.hasSchema = true
		it.schema = x.pick("db_ks", "db_ks", "db_other", "db_plain", "DB_KS", "Db_Ks", "nodb")
		it.sq = x.pick("b", "b", "q")
		it.gap = core.Pick(x.g, c06Gaps)
	}
	return x.place(it)
}

func (x *c06Gen) table() string { return x.ref(x.recase(core.Pick(x.g, x.tables))) }

// a table written in the template itself (always the same bare name)
func (x *c06Gen) lit(name string) string { return x.place(c06Item{name: name, q: "b"}) }

// an unquoted, unqualified reference (for the places where the name is glued to something)
func (x *c06Gen) bare() string {
	for i := 0; i < 20; i++ {
		n := x.recase(core.Pick(x.g, x.tables))
		// not a digit first: glued to five version digits it would be read as the sixth
		if !c06NeedsQuote(n) && !(n[0] >= '0' && n[0] <= '9') {
			return x.place(c06Item{name: n, q: "b"})
		}
	}
	return x.lit("u")
}

// "/*!" + version, to be glued to what follows
func (x *c06Gen) version() string {
	return x.place(c06Item{version: true, m: x.g.Intn(4) == 0, digits: x.pick("50000", "40101", "32312", "100100", "080000", "999999")})
}

// the glue between a keyword and a table reference
func (x *c06Gen) glue(tbl string) string {
	switch x.g.Intn(22) {
	case 0:
		return "\n" + tbl
	case 1:
		return "/*c*/" + tbl
	case 2:
		return " /* c */ " + tbl
	case 3:
		if x.startsQuoted(tbl) {
			return tbl
		}
		return "\t" + tbl
	case 4:
		return " (" + tbl + ")"
	case 5:
		return "  " + tbl
	case 6:
		return " -- c\n" + tbl
	case 7:
		return "(" + tbl + ")"
	case 8:
		// Unicode white space: the parser skips it before a token (after an identifier
		// character it would continue the identifier: `from\u3000t` is one name)
		return " " + x.pick("\u3000", "\u00a0", "\u2003", "\u0085", "\u2028", "\u1680", "\u205f", "\u3000\u00a0") + tbl
	case 9:
		// the reference inside an executable comment
		if x.g.Intn(4) == 0 {
			// directly after "/*!" a name that starts with digits would lose them as a version number
			return " /*!" + x.bare() + x.pick("*/", " */")
		}
		return " " + x.pick("/*! ", "/*!50000 ", "/*!40101\t", "/*!M100100 ", "/*!999999 ") + tbl + x.pick("*/", " */")
	case 10:
		// … glued to its version number
		return x.pick(" ", "", "\n") + x.version() + x.bare() + x.pick("*/", " */")
	case 11:
		return " #c\n" + tbl
	}
	return " " + tbl
}

func (x *c06Gen) alias() string {
	return x.pick("", "", " a", " as a", " AS `a`")
}

func (x *c06Gen) where() string {
	switch x.g.Intn(10) {
	case 0:
		return ""
	case 1:
		return " where id in (select id from" + x.glue(x.table()) + ")"
	case 2:
		return " where exists (select 1 from" + x.glue(x.table()) + " where 1=1)"
	case 3:
		return " where note = '" + core.Pick(x.g, x.tables) + "'"
	case 4:
		return " where id = 1 /* " + core.Pick(x.g, x.tables) + " */"
	case 5:
		// string literals that hold comment marks around live SQL
		return " where a = '/*' and id in (select id from" + x.glue(x.table()) + ") and b = '*/'"
	}
	return x.pick(" where id = 1", " where id=1 and name='x'", " WHERE id > 5 order by id limit 3", " where a.id = 3")
}

func (x *c06Gen) fromList() string {
	s := x.glue(x.table()) + x.alias()
	switch x.g.Intn(14) {
	case 0, 1:
		s += x.pick(",", ", ", " , ", ",\n", ",\u3000", ",/*c*/") + x.table() + x.alias()
	case 2, 3:
		s += x.pick(" join ", " left join ", " inner join ", " JOIN ", " straight_join ", " join\n", " join \u00a0", " join/**/") + x.table() + x.pick(" b", "") + x.pick(" on 1=1", " using (id)", "")
	case 4:
		s = x.pick(" (select * from", " (select id from", "(select * from") + x.glue(x.table()) + ") x"
	case 5:
		s += "," + x.table() + "," + x.table()
	case 6:
		// the join inside an executable comment
		s += " " + x.pick("/*!", "/*!50000 ", "/*!40101 ", "/*!M100100") + x.pick(", ", ",", "join ", "straight_join ") + x.table() + x.pick(" */", "*/")
	case 7:
		// a back-quoted name glued to the keywords around it
		it := c06Item{name: x.recase(core.Pick(x.g, x.tables)), q: "q"}
		s += " join" + x.place(it) + "on 1=1"
	case 8:
		// a comment in the middle of what looks like one name: two tokens, table and alias
		n := core.Pick(x.g, x.tables)
		if !c06NeedsQuote(n) && len(n) > 2 {
			k := 1 + x.g.Intn(len(n)-1)
			s += "," + x.lit(n[:k]) + "/**/" + n[k:]
		}
	}
	return s
}

func (x *c06Gen) selectStmt() string {
	s := x.pick("select", "SELECT", "Select", "select distinct", "select /* c */", "/* c */ select", "-- c\nselect", "select\n", "select '/*',") +
		x.pick(" *", " id, name", " count(*)", " a.*", " `from`", " 1", " '*/'") + x.pick(" from", " FROM", " From", "\nfrom") + x.fromList() + x.where()
	switch x.g.Intn(10) {
	case 0:
		s += x.pick(" union ", " union all ", " UNION\n") + "select * from" + x.glue(x.table())
	case 1:
		s = "(" + s + ")"
	case 2:
		s += x.pick(" for update", " lock in share mode", ";", " /* t_shard */", " -- t_shard")
	case 3:
		// the whole statement inside an executable comment
		s = x.pick("/*!40101 ", "/*! ", "/*!50000\n") + s + " */"
	}
	return s
}

func (x *c06Gen) insertStmt() string {
	kw := x.pick("insert", "INSERT", "replace", "Replace", "insert ignore", "insert low_priority", "/*c*/ insert")
	into := x.pick(" into", " INTO", " into", "", "\ninto")
	t := x.table()
	cols := x.pick("", "(id, name)", " (id, name)", "(id,name)")
	t += cols
	if cols == "" {
		// a name glued to VALUES is another name (in the vocabulary: t_shardvalues)
		t += " "
	}
	vals := x.pick(" values (1, 'a')", " VALUES(1,'a')", "values(1,'a')", " set id = 1", " select * from"+x.glue(x.table()), " value (1, 'x'),(2, 't_shard')",
		" select * from "+x.lit("u")+" where id in (select id from"+x.glue(x.table())+")")
	sp := " "
	if into == "" && x.g.Intn(3) == 0 {
		sp = "\n"
	}
	if x.g.Intn(8) == 0 {
		sp = x.pick(" \u3000", "/*c*/", " /*!50000 */")
	}
	return kw + into + sp + t + vals
}

func (x *c06Gen) updateStmt() string {
	kw := x.pick("update", "UPDATE", "update low_priority", "update ignore", "/*c*/update")
	t := x.table() + x.alias()
	switch x.g.Intn(8) {
	case 0:
		t += ", " + x.table()
	case 1:
		t += " join " + x.table() + " b on 1=1"
	case 2:
		t = x.table() + x.pick("\n", "/*c*/", " ")
		return kw + " " + t + "set name = 'x'" + x.where()
	}
	return kw + x.glue(t) + x.pick(" set", " SET", "\nset", " Set") + x.pick(" name = 'x'", " name='x', v = v + 1", " a.name = (select name from"+x.glue(x.table())+" limit 1)") + x.where()
}

func (x *c06Gen) deleteStmt() string {
	kw := x.pick("delete", "DELETE", "delete low_priority", "delete quick")
	switch x.g.Intn(6) {
	case 0:
		return kw + " " + x.lit("a") + " from" + x.glue(x.table()) + " a join " + x.table() + " b on 1=1" + x.where()
	case 1:
		return kw + " from " + x.table() + " using " + x.table() + " join " + x.table() + x.where()
	case 2:
		return kw + " " + x.table() + " from" + x.glue(x.table()) + "," + x.table()
	}
	return kw + x.pick(" from", " FROM", "\nfrom") + x.glue(x.table()) + x.where()
}

func (x *c06Gen) other() string {
	switch x.g.Intn(50) {
	case 0:
		return "show create table " + x.table()
	case 1:
		return "explain select * from " + x.table()
	case 2:
		return x.pick("desc ", "describe ", "explain ") + x.table()
	case 3:
		return "truncate table " + x.table()
	case 4:
		return "/*!40101 select * from " + x.table() + " */"
	case 5:
		return "from " + x.table()
	case 6:
		return "update " + x.table()
	case 7:
		return "lock tables " + x.table() + " read, " + x.table() + " write"
	case 8:
		return "create table " + x.lit("x") + " like " + x.table()
	case 9:
		return "load data infile 'x' into table " + x.table()
	case 10:
		return "alter table " + x.table() + " add c int"
	case 11:
		return "select * into @a from " + x.table()
	case 12:
		return "with c as (select * from " + x.table() + ") select * from c"
	case 13:
		return "select * from " + x.lit("u") + " partition (p0), " + x.table()
	case 14:
		return "table " + x.table()
	case 15:
		return "select * from " + x.lit("u") + " natural join " + x.table()
	case 16:
		return "rename table " + x.table() + " to " + x.table()
	case 17:
		return "create table " + x.lit("x") + " as select * from " + x.table()
	case 18:
		return "create table " + x.lit("x") + " select * from " + x.table()
	case 19:
		return x.pick("show columns from ", "show full columns from ", "show index from ", "show fields in ") + x.table()
	case 20:
		return "handler " + x.table() + " open"
	case 21:
		return "drop table " + x.table() + ", " + x.table()
	case 22:
		return "explain delete from " + x.table() + " where id = 1"
	case 23:
		return "create view " + x.lit("v") + " as select * from " + x.table()
	case 24:
		return "select * from " + x.lit("u") + " where id = (select max(id) from " + x.table() + ")"
	case 25:
		return "analyze table " + x.table()
	case 26:
		return "use db_ks; select * from " + x.table()
	case 27:
		return "select 1; select * from " + x.table()
	}
	return x.pick("select 1", "select last_insert_id()", "select LAST_INSERT_ID( )", "select last_insert_id() as x", "select database()", "select now() from dual",
		"show tables", "set names utf8", "begin", "use db_ks", "select * from", "select * from ", "", " ", "select", "insert into", "update set", "delete from",
		"select 't_shard'", "select * from "+x.lit("u")+" where x = \"from t_shard\"", "call p()", "select * from "+x.lit("u")+" into outfile 'x'", "values row(1)")
}

var c06Soup = []string{"select", "from", "into", "set", "update", "insert", "replace", "delete", "join", "where", "values", ",", " ", " ", "\n", "(", ")", "`", ".", "*", "/*", "*/", "--", "'", "=", "1", ";",
	"t_shard", "T_SHARD", "t_global", "t_child", "u", "db_ks", "db_ks.t_shard", "`t_shard`", "t_mixed", "x", "as", "on",
	"/*!", "/*!50000", "/*!M100100", "\u3000", "\u00a0", "``", "`order-items`", "order", "items", "-", "#", "0", "M", "my table", "\"", "\\"}

func (x *c06Gen) soup() string {
	var b strings.Builder
	b.WriteString(x.pick("select ", "insert ", "update ", "delete ", "replace ", "", "SELECT\t"))
	n := 1 + x.g.Intn(10)
	for i := 0; i < n; i++ {
		b.WriteString(core.Pick(x.g, c06Soup))
		if x.g.Intn(2) == 0 {
			b.WriteString(" ")
		}
	}
	return b.String()
}

func c06Vocabulary(c *c06Cfg) []string {
	v := []string{"u", "u2", "plain", "t", "xt_shard", "t_shard_x", "t_shard2", "from_t", "settings", "t_glob", "t_shardvalues", "t_shard_0001", "t_shard0", "50000t_shard",
		"order-lines", "my", "table", "items", "order items", "a``b", "t.shard"}
	for _, r := range c.rules {
		// sharded names several times: they are what the property is about
		v = append(v, r.Table, r.Table, strings.ToLower(r.Table))
		// a physical sub-table addressed directly
		if !c06NeedsQuote(r.Table) {
			v = append(v, strings.ToLower(r.Table)+"_0001")
		}
	}
	if len(c.rules) == 0 {
		v = append(v, "t_shard", "t_global")
	}
	return v
}

func c06Line(e *c06Env, c *c06Cfg, db, sql string, segs *core.Sexp) core.Sexp {
	full, _, tabs, _ := c06Full(e, db, sql)
	xs := []core.Sexp{core.A("fp"), c06RulesSexp(c), c06PhySexp(e),
		core.L(core.A("db"), core.Text(db)),
		core.L(core.A("st"), core.I(int64(parser.Preview(sql)))),
		core.L(core.A("sql"), core.Text(sql)),
		core.L(core.A("full"), core.A(full)),
		c06TabsSexp(tabs)}
	if segs != nil {
		xs = append(xs, *segs)
	}
	return core.L(xs...)
}

// the probed defects of the pinned tree (DESIGN.md C06) and of the tree after the first repair:
// statement templates, %s = a sharded table in lower case, %S in upper case
var c06Probed = []string{
	"select * from %S", "select * from u, %s", "select * from u join %s on u.id = %s.id", "select * from (select * from %s) x",
	"select * from`%s`", "select * from u where id in (select id from %s)", "select * from/*c*/%s", "select * from\n%s", "select * from %s",
	"insert %s values (1)", "insert into`%s` values (1)", "insert into %s(id) values (1)", "insert into u select * from %s", "replace %S set id = 1",
	"update %S set a = 1", "update u, %s set u.a = 1", "update u join %s on 1=1 set u.a = 1", "update %s\nset a = 1", "update %s a set a.x = 1",
	"delete a from u a join %s b on 1=1", "delete from %S where id = 1", "delete from u where id in (select id from %s)",
	"select * from u union select * from %s", "select * from db_ks.%S", "select * from `db_ks`.`%s`, u", "select * from DB_KS.%s",
	"select * from u,\u3000%s", "select * from u,\u00a0%S where id = 1", "select * from u join \u2003%s b on 1=1", "delete from u where id in (select id from \u0085%s)",
	"select * from u,/*!50000%s*/", "select * from u join/*!M100100%S */ on 1=1", "update u,/*!40101%s*/ set u.a=1", "insert into u select * from/*!999999%s*/",
	"select * from u /*!50000 , %s */", "select '/*' from u, %S where b = '*/'", "replace /*! %s */ (id) values (1)",
}

func genC06(g *core.Gen) {
	for i := range c06Cfgs {
		c := &c06Cfgs[i]
		e, err := c06EnvFor(c)
		if err != nil {
			panic(err)
		}
		x := &c06Gen{g: g, tables: c06Vocabulary(c)}
		dbs := []string{"db_ks", "db_ks", "db_ks", "db_other", "db_plain", "", "DB_KS"}
		emitLine := func(db, sql string, segs *core.Sexp, tag string) {
			line := c06Line(e, c, db, sql, segs)
			full := line.Nth(6).Nth(1).Atom
			pre := "N"
			if ok, _, _ := e.vs.VerifPreBuildUnshardPlan(parser.Preview(sql), db, sql); ok {
				pre = "U"
			}
			g.Emit(line, "cfg:"+c.name, tag, "db:"+db, "full:"+full, "pre:"+pre+"/full:"+full, "stmt:"+parser.StmtType(parser.Preview(sql)))
		}
		// a statement composed with placeholders: rendered, with its segments
		emit := func(s string, tag string) {
			sql, segs := x.resolve(s)
			emitLine(core.Pick(g, dbs), sql, &segs, tag)
		}
		for _, r := range c.rules {
			for _, tpl := range c06Probed {
				quoted := func(n string) string {
					if c06NeedsQuote(n) {
						return c06Ident("q", n)
					}
					return n
				}
				if c06NeedsQuote(r.Table) && (strings.Contains(tpl, "`%") || strings.Contains(tpl, "/*!50000%") || strings.Contains(tpl, "100100%") || strings.Contains(tpl, "40101%") || strings.Contains(tpl, "999999%")) {
					continue
				}
				sql := strings.ReplaceAll(strings.ReplaceAll(tpl, "%S", quoted(strings.ToUpper(r.Table))), "%s", quoted(strings.ToLower(r.Table)))
				for _, db := range []string{"db_ks", ""} {
					emitLine(db, sql, nil, "probed")
				}
			}
		}
		n := g.Scale(300, 5000)
		for i := 0; i < n; i++ {
			emit(x.selectStmt(), "select")
			if i%2 == 0 {
				emit(x.insertStmt(), "insert")
				emit(x.updateStmt(), "update")
			} else {
				emit(x.deleteStmt(), "delete")
				if i%4 == 1 {
					emit(x.other(), "other")
				} else {
					emitLine(core.Pick(g, dbs), x.soup(), nil, "soup")
				}
			}
		}
	}
}
