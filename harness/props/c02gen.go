package props

import (
	"strconv"

	"gaeaverif/harness/core"
)

// Generator of C02: statements from a grammar of the supported subset over
// boundary-rich table contents placed by the real rules.

var c02Rules = []string{"hash4", "mod3", "range4x100", "range5x7", "range3x1", "linked", "year", "mycat_mod", "mycat_long"}

// small value domains: duplicates, NULLs, groups on one shard only, separator
// characters, the string NULL, negative and decimal numbers
var c02AVals = []int64{-3, -1, 0, 1, 2, 5, 5, 7}
var c02SVals = []string{"", "a", "b", "A", "NULL", "+", "a+", "+b", "a", "b", "ab"}
var c02TVals = []string{"b", "+b", "NULL", "x", "", "a+"}
var c02DVals = []int64{-250, -1, 0, 100, 150, 150, 250, 1050}

const (
	c02ColK = 0
	c02ColO = 1
	c02ColA = 2
	c02ColS = 3
	c02ColT = 4
	c02ColD = 5
)

func c02HasIndex(idxs []int, i int) bool {
	for _, x := range idxs {
		if x == i {
			return true
		}
	}
	return false
}

func c02GenRows(g *core.Gen, ctx *c01Ctx, max int) core.Sexp {
	rows := []core.Sexp{core.A("rows")}
	n := g.Intn(max + 1)
	if g.Intn(8) == 0 {
		n = max + g.Intn(12) // larger tables now and then
	}
	// a few keys are reused so that WHERE k = … selects several rows
	var keys []int64
	for j := 0; j < n; j++ {
		var k int64
		if len(keys) > 0 && g.Intn(3) == 0 {
			k = core.Pick(g, keys)
		} else {
			k = core.Pick(g, ctx.pts) + int64(g.Intn(3)) - 1
		}
		var key interface{} = k
		idx, err := c01Find(ctx.rule, key)
		if err != nil || k < 0 || !c02HasIndex(ctx.rule.GetSubTableIndexes(), idx) {
			continue // no row with this key can be stored
		}
		keys = append(keys, k)
		o := core.Pick(g, ctx.pts)
		switch g.Intn(3) {
		case 0:
			o = k
		case 1:
			o = int64(g.Intn(4))
		}
		a, s, t, d := core.A("n"), core.A("n"), core.A("n"), core.A("n")
		if g.Intn(5) != 0 {
			a = core.I(core.Pick(g, c02AVals))
		}
		if g.Intn(6) != 0 {
			s = core.Text(core.Pick(g, c02SVals))
		}
		if g.Intn(4) != 0 {
			t = core.Text(core.Pick(g, c02TVals))
		}
		if g.Intn(5) != 0 {
			d = core.I(core.Pick(g, c02DVals))
		}
		rows = append(rows, core.L(core.I(int64(idx)), core.I(k), core.I(o), a, s, t, d))
	}
	return core.L(rows...)
}

type c02QGen struct {
	g       *core.Gen
	nextAl  int64
	tags    []string
	aliases []int64 // alias ids of selected fields
}

func (q *c02QGen) alias() core.Sexp {
	if q.g.Intn(3) != 0 {
		return core.A("-")
	}
	q.nextAl++
	return core.I(99 + q.nextAl)
}

func c02AggSexp(kind string, arg core.Sexp, distinct bool) []core.Sexp {
	return []core.Sexp{core.A("agg"), core.A(kind), arg, core.B(distinct)}
}

// an aggregate over a column of a suitable type
func (q *c02QGen) agg() []core.Sexp {
	g := q.g
	kind := core.Pick(g, []string{"count", "count", "sum", "max", "min"})
	distinct := g.Intn(8) == 0
	var arg core.Sexp
	switch kind {
	case "count":
		if g.Intn(2) == 0 {
			arg = core.A("star")
			distinct = false
		} else {
			arg = core.I(int64(core.Pick(g, []int{c02ColA, c02ColS, c02ColD, c02ColK, c02ColT})))
		}
	case "sum":
		arg = core.I(int64(core.Pick(g, []int{c02ColA, c02ColA, c02ColD, c02ColO, c02ColK})))
	default:
		arg = core.I(int64(core.Pick(g, []int{c02ColA, c02ColS, c02ColD, c02ColO, c02ColT})))
	}
	if distinct {
		q.tags = append(q.tags, "agg-distinct")
	}
	q.tags = append(q.tags, "agg="+kind)
	return c02AggSexp(kind, arg, distinct)
}

func (q *c02QGen) limit() core.Sexp {
	g := q.g
	if g.Intn(5) < 3 {
		return core.A("none")
	}
	cnt := core.Pick(g, []int64{0, 1, 1, 2, 3, 5, 100})
	form := int64(g.Intn(3))
	off := int64(0)
	if form != 0 {
		off = core.Pick(g, []int64{0, 1, 1, 2, 3, 7})
	}
	q.tags = append(q.tags, "limit", "limit-form="+strconv.FormatInt(form, 10))
	if off > 0 {
		q.tags = append(q.tags, "limit-offset")
	}
	return core.L(core.A("lim"), core.I(form), core.I(cnt), core.I(off))
}

func c02Order(items []core.Sexp, g *core.Gen) core.Sexp {
	var os []core.Sexp
	for _, it := range items {
		os = append(os, core.L(it, core.B(g.Intn(3) == 0)))
	}
	return core.L(os...)
}

func c02Name1(n int64) core.Sexp { return core.L(core.A("name"), core.I(n)) }

// plain projection: columns / *, DISTINCT, ORDER BY selected or hidden columns,
// aliases and positions, LIMIT
func (q *c02QGen) plain() core.Sexp {
	g := q.g
	q.tags = append(q.tags, "shape=plain")
	distinct := g.Intn(5) == 0
	var fields []core.Sexp
	var cols []int64
	var aliasOf []int64 // alias id or -1, per field
	star := g.Intn(6) == 0
	if star {
		fields = append(fields, core.L(core.A("star")))
		q.tags = append(q.tags, "star")
	} else {
		n := 1 + g.Intn(3)
		for i := 0; i < n; i++ {
			c := int64(g.Intn(len(c02Cols)))
			al := q.alias()
			cols = append(cols, c)
			if al.Atom == "-" {
				aliasOf = append(aliasOf, -1)
			} else {
				aliasOf = append(aliasOf, al.Int())
			}
			fields = append(fields, core.L(core.A("col"), core.I(c), al))
		}
	}
	var order []core.Sexp
	for i, n := 0, g.Intn(3); i < n; i++ {
		switch {
		case !star && g.Intn(3) == 0:
			j := g.Intn(len(cols))
			if aliasOf[j] >= 0 && g.Intn(2) == 0 {
				order = append(order, c02Name1(aliasOf[j]))
				q.tags = append(q.tags, "order-alias")
			} else {
				order = append(order, c02Name1(cols[j]))
				q.tags = append(q.tags, "order-selected")
			}
		case !star && g.Intn(4) == 0:
			order = append(order, core.L(core.A("pos"), core.I(int64(1+g.Intn(len(cols))))))
			q.tags = append(q.tags, "order-position")
		default:
			c := int64(g.Intn(len(c02Cols)))
			if distinct && !star {
				c = core.Pick(g, cols) // DISTINCT: ORDER BY on selected columns only
			}
			order = append(order, c02Name1(c))
			q.tags = append(q.tags, "order-column")
		}
	}
	if distinct {
		q.tags = append(q.tags, "distinct")
	}
	return core.L(core.A("q"), core.B(distinct), core.L(fields...), core.A("none"), c02Order(order, g), q.limit())
}

// aggregate functions without GROUP BY
func (q *c02QGen) aggOnly() core.Sexp {
	g := q.g
	q.tags = append(q.tags, "shape=agg")
	var fields []core.Sexp
	var order []core.Sexp
	n := 1 + g.Intn(3)
	for i := 0; i < n; i++ {
		a := q.agg()
		al := q.alias()
		fields = append(fields, core.L(append(a, al)...))
		if al.Atom != "-" && g.Intn(4) == 0 {
			order = append(order, c02Name1(al.Int()))
		}
	}
	if g.Intn(10) == 0 {
		order = append(order, core.L(q.agg()...))
		q.tags = append(q.tags, "order-aggregate")
	}
	distinct := g.Intn(10) == 0
	if distinct {
		q.tags = append(q.tags, "distinct")
	}
	return core.L(core.A("q"), core.B(distinct), core.L(fields...), core.A("none"), c02Order(order, g), q.limit())
}

// GROUP BY 1–2 columns, selected group columns (possibly aliased, grouped by
// alias), aggregate functions, ORDER BY group columns / aliases / aggregates /
// positions, LIMIT
func (q *c02QGen) groupBy() core.Sexp {
	g := q.g
	q.tags = append(q.tags, "shape=group")
	gcolsAll := []int64{c02ColS, c02ColS, c02ColT, c02ColA, c02ColO, c02ColD}
	ng := 1 + g.Intn(2)
	var gcols []int64
	for len(gcols) < ng {
		c := core.Pick(g, gcolsAll)
		dup := false
		for _, x := range gcols {
			if x == c {
				dup = true
			}
		}
		if !dup {
			gcols = append(gcols, c)
		}
	}
	distinct := g.Intn(10) == 0
	if distinct {
		q.tags = append(q.tags, "distinct")
	}
	// orderPool: what ORDER BY may name; with DISTINCT only what is selected
	var fields, group, orderPool []core.Sexp
	allSelected := true
	for _, c := range gcols {
		ref := c02Name1(c)
		if g.Intn(4) != 0 { // selected
			al := q.alias()
			fields = append(fields, core.L(core.A("col"), core.I(c), al))
			orderPool = append(orderPool, c02Name1(c))
			if al.Atom != "-" {
				orderPool = append(orderPool, c02Name1(al.Int()))
				if g.Intn(2) == 0 {
					ref = c02Name1(al.Int())
					q.tags = append(q.tags, "group-by-alias")
				}
			}
		} else {
			q.tags = append(q.tags, "group-hidden")
			allSelected = false
			if !distinct {
				orderPool = append(orderPool, c02Name1(c))
			}
		}
		group = append(group, ref)
	}
	for i, n := 0, g.Intn(3); i < n || len(fields) == 0; i++ {
		a := q.agg()
		al := q.alias()
		fields = append(fields, core.L(append(a, al)...))
		if al.Atom != "-" {
			orderPool = append(orderPool, c02Name1(al.Int()), c02Name1(al.Int()))
		}
		orderPool = append(orderPool, core.L(a...))
	}
	if g.Intn(2) == 0 { // shuffle the select list
		g.Rand.Shuffle(len(fields), func(i, j int) { fields[i], fields[j] = fields[j], fields[i] })
	}
	var order []core.Sexp
	switch x := g.Intn(6); {
	case x == 0 && (allSelected || !distinct): // ORDER BY exactly the GROUP BY columns (LIMIT may then go to the shards)
		for _, c := range gcols {
			order = append(order, c02Name1(c))
		}
		if g.Intn(3) == 0 {
			order = append(order, core.Pick(g, orderPool))
		}
		q.tags = append(q.tags, "order-covers-group")
	case x <= 3:
		for i, n := 0, 1+g.Intn(2); i < n; i++ {
			if g.Intn(6) == 0 && !distinct {
				order = append(order, core.L(core.A("agg"), core.A("count"), core.A("star"), core.B(false)))
				q.tags = append(q.tags, "order-hidden-aggregate")
			} else if g.Intn(6) == 0 {
				order = append(order, core.L(core.A("pos"), core.I(int64(1+g.Intn(len(fields))))))
				q.tags = append(q.tags, "order-position")
			} else {
				it := core.Pick(g, orderPool)
				order = append(order, it)
				if it.Head() == "agg" {
					q.tags = append(q.tags, "order-aggregate")
				}
			}
		}
	}
	return core.L(core.A("q"), core.B(distinct), core.L(fields...), core.L(append([]core.Sexp{core.A("group")}, group...)...), c02Order(order, g), q.limit())
}

// statements a server rejects (unknown names, SUM of strings, positions out
// of range) and odd LIMIT values
func (q *c02QGen) malformed() core.Sexp {
	g := q.g
	q.tags = append(q.tags, "shape=malformed")
	fields := []core.Sexp{core.L(core.A("col"), core.I(int64(g.Intn(len(c02Cols)))), core.A("-"))}
	group := core.A("none")
	var order []core.Sexp
	switch g.Intn(5) {
	case 0:
		fields = append(fields, core.L(core.A("col"), core.I(9), core.A("-")))
	case 1:
		fields = []core.Sexp{core.L(core.A("agg"), core.A("sum"), core.I(c02ColS), core.B(false), core.A("-"))}
	case 2:
		order = append(order, core.L(core.A("pos"), core.I(int64(core.Pick(g, []int{0, 2, 99})))))
	case 3:
		order = append(order, c02Name1(150))
	case 4:
		group = core.L(core.A("group"), core.L(core.A("pos"), core.I(1)))
	}
	return core.L(core.A("q"), core.B(false), core.L(fields...), group, c02Order(order, g), q.limit())
}

func genC02(g *core.Gen) {
	rt, err := c01GetRouter()
	if err != nil {
		panic(err)
	}
	n := g.Scale(7000, 60000)
	for i := 0; i < n; i++ {
		r := c01RuleByName(core.Pick(g, c02Rules))
		rule := rt.GetRule(r.db, r.table)
		ctx := &c01Ctx{r: r, rule: rule, pts: c01Points(r)}
		if r.dateFmt != "" {
			ctx.colType = 2 // integer (unix time) sharding column
		}
		qg := &c02QGen{g: g}
		var q core.Sexp
		switch x := g.Intn(20); {
		case x < 7:
			q = qg.plain()
		case x < 11:
			q = qg.aggOnly()
		case x < 19:
			q = qg.groupBy()
		default:
			q = qg.malformed()
		}
		cond := core.A("none")
		if g.Intn(3) != 0 {
			cond = c05Restrict(g, ctx.genCond(g, g.Intn(3)))
			qg.tags = append(qg.tags, "where", "where-root="+cond.Head())
		}
		rows := c02GenRows(g, ctx, g.Scale(10, 14))
		in := core.L(core.A("sel"), core.A(r.name), c01Meta(rule), q, cond, rows)
		g.Emit(in, append(qg.tags, "rule="+r.name)...)
	}
	genC02Union(g, g.Scale(1500, 12000))
	genC02Join(g, g.Scale(2000, 15000))
}
