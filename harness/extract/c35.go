package extract

import (
	"fmt"
	"go/ast"
	"go/parser"
	"go/token"
	"os"
	"path/filepath"
	"strings"
)

// C35: structural facts the model of the allow-list relies on.
//
//   - c35AllowipsWriters: the number of assignments to a field `allowips` in
//     package proxy/server (non-test, non-hook files). The model treats the
//     allow-list of a namespace object as immutable after NewNamespace, which
//     is why a connecting client is judged by one whole list (the old or the
//     new one of a reload); that holds iff the one writer is NewNamespace.
//   - c35AllowipsWriterIsNewNamespace: that one assignment is in NewNamespace.
//   - c35HandshakeChecksAllowList: Session.Handshake calls cc.IsAllowConnect()
//     in an `if` on exactly the negation of its result whose body returns a non-nil error, before the statement that
//     writes the OK packet (cc.c.writeOK): no client completes the handshake
//     without passing the check.
//   - c35UtilParseAllowIpsCallers: calls of util's unexported parseAllowIps
//     (the comma-separated variant that silently drops entries that do not
//     parse, so that a non-empty text can yield the empty "allow everyone"
//     list) in package util outside tests and hooks. The model of the loader
//     is the one of proxy/server; this must stay 0.
func init() {
	register(func(repo string) ([]fact, error) {
		files := func(dir string) ([]*ast.File, *token.FileSet, error) {
			fset := token.NewFileSet()
			ents, err := os.ReadDir(filepath.Join(repo, dir))
			if err != nil {
				return nil, nil, fmt.Errorf("C35: %v", err)
			}
			var fs []*ast.File
			for _, e := range ents {
				n := e.Name()
				if e.IsDir() || !strings.HasSuffix(n, ".go") || strings.HasSuffix(n, "_test.go") || strings.HasPrefix(n, "verif_") {
					continue
				}
				f, err := parser.ParseFile(fset, filepath.Join(repo, dir, n), nil, 0)
				if err != nil {
					return nil, nil, fmt.Errorf("C35: %v", err)
				}
				fs = append(fs, f)
			}
			return fs, fset, nil
		}
		srv, _, err := files(filepath.Join("proxy", "server"))
		if err != nil {
			return nil, err
		}
		writers, inNew := 0, 0
		var handshake *ast.FuncDecl
		for _, f := range srv {
			for _, d := range f.Decls {
				fd, ok := d.(*ast.FuncDecl)
				if !ok || fd.Body == nil {
					continue
				}
				if fd.Name.Name == "Handshake" && fd.Recv != nil && len(fd.Recv.List) == 1 {
					if st, ok := fd.Recv.List[0].Type.(*ast.StarExpr); ok {
						if id, ok := st.X.(*ast.Ident); ok && id.Name == "Session" {
							handshake = fd
						}
					}
				}
				ast.Inspect(fd.Body, func(n ast.Node) bool {
					switch x := n.(type) {
					case *ast.AssignStmt:
						for _, l := range x.Lhs {
							if sel, ok := l.(*ast.SelectorExpr); ok && sel.Sel.Name == "allowips" {
								writers++
								if fd.Name.Name == "NewNamespace" && fd.Recv == nil {
									inNew++
								}
							}
						}
					case *ast.IncDecStmt:
						if sel, ok := x.X.(*ast.SelectorExpr); ok && sel.Sel.Name == "allowips" {
							writers++
						}
					case *ast.CallExpr: // append(n.allowips, …) assigned elsewhere is caught above; a pointer taken is a writer too
						_ = x
					case *ast.UnaryExpr:
						if x.Op == token.AND {
							if sel, ok := x.X.(*ast.SelectorExpr); ok && sel.Sel.Name == "allowips" {
								writers++
							}
						}
					}
					return true
				})
			}
		}
		if writers == 0 {
			return nil, fmt.Errorf("C35: no assignment to a field allowips found in proxy/server")
		}
		if handshake == nil {
			return nil, fmt.Errorf("C35: func (cc *Session) Handshake not found in proxy/server")
		}
		// position of the allow check and of the OK packet among the top-level statements of Handshake
		isCall := func(e ast.Expr, names ...string) bool {
			c, ok := e.(*ast.CallExpr)
			if !ok {
				return false
			}
			var chain []string
			x := c.Fun
			for {
				sel, ok := x.(*ast.SelectorExpr)
				if !ok {
					break
				}
				chain = append([]string{sel.Sel.Name}, chain...)
				x = sel.X
			}
			if id, ok := x.(*ast.Ident); ok {
				chain = append([]string{id.Name}, chain...)
			}
			return strings.Join(chain, ".") == strings.Join(names, ".")
		}
		contains := func(n ast.Node, names ...string) bool {
			found := false
			ast.Inspect(n, func(x ast.Node) bool {
				if e, ok := x.(ast.Expr); ok && isCall(e, names...) {
					found = true
				}
				return !found
			})
			return found
		}
		checkAt, okAt, checkReturnsErr := -1, -1, false
		for i, st := range handshake.Body.List {
			if ifs, ok := st.(*ast.IfStmt); ok && checkAt < 0 {
				// exactly `if x := cc.IsAllowConnect(); x == false {` / `!x`, or `if !cc.IsAllowConnect() {` / `== false`:
				// a condition with anything else in it (a further conjunct, say) is not the check
				negOf := func(cond ast.Expr, isIt func(ast.Expr) bool) bool {
					switch c := cond.(type) {
					case *ast.UnaryExpr:
						return c.Op == token.NOT && isIt(c.X)
					case *ast.BinaryExpr:
						if id, ok := c.Y.(*ast.Ident); ok && c.Op == token.EQL && id.Name == "false" {
							return isIt(c.X)
						}
					}
					return false
				}
				hdr := false
				if ifs.Init == nil {
					hdr = negOf(ifs.Cond, func(e ast.Expr) bool { return isCall(e, "cc", "IsAllowConnect") })
				} else if as, ok := ifs.Init.(*ast.AssignStmt); ok && len(as.Lhs) == 1 && len(as.Rhs) == 1 && isCall(as.Rhs[0], "cc", "IsAllowConnect") {
					if v, ok := as.Lhs[0].(*ast.Ident); ok {
						hdr = negOf(ifs.Cond, func(e ast.Expr) bool { id, ok := e.(*ast.Ident); return ok && id.Name == v.Name })
					}
				}
				if hdr {
					checkAt = i
					if n := len(ifs.Body.List); n > 0 {
						if ret, ok := ifs.Body.List[n-1].(*ast.ReturnStmt); ok && len(ret.Results) == 2 {
							if id, isID := ret.Results[1].(*ast.Ident); !isID || id.Name != "nil" {
								checkReturnsErr = true
							}
						}
					}
				}
			}
			if okAt < 0 && contains(st, "cc", "c", "writeOK") {
				okAt = i
			}
		}
		if okAt < 0 {
			return nil, fmt.Errorf("C35: cc.c.writeOK not found in Session.Handshake")
		}
		hs := "false"
		if checkAt >= 0 && checkAt < okAt && checkReturnsErr {
			hs = "true"
		}
		utl, _, err := files("util")
		if err != nil {
			return nil, err
		}
		callers, declared := 0, false
		for _, f := range utl {
			for _, d := range f.Decls {
				if fd, ok := d.(*ast.FuncDecl); ok && fd.Recv == nil && fd.Name.Name == "parseAllowIps" {
					declared = true
				}
			}
			ast.Inspect(f, func(n ast.Node) bool {
				if c, ok := n.(*ast.CallExpr); ok {
					if id, ok := c.Fun.(*ast.Ident); ok && id.Name == "parseAllowIps" {
						callers++
					}
				}
				return true
			})
		}
		_ = declared // when the function is removed altogether, 0 callers is still the fact
		nw := "false"
		if writers == 1 && inNew == 1 {
			nw = "true"
		}
		return []fact{
			{name: "c35AllowipsWriters", typ: "Nat", val: fmt.Sprint(writers),
				doc: "assignments to (or pointers taken of) a field `allowips` in package proxy/server outside tests and hooks"},
			{name: "c35AllowipsWriterIsNewNamespace", typ: "Bool", val: nw,
				doc: "the only such assignment is in func NewNamespace"},
			{name: "c35HandshakeChecksAllowList", typ: "Bool", val: hs,
				doc: "Session.Handshake tests cc.IsAllowConnect() in an if whose body returns a non-nil error, before the statement that calls cc.c.writeOK"},
			{name: "c35UtilParseAllowIpsCallers", typ: "Nat", val: fmt.Sprint(callers),
				doc: "calls of util's unexported parseAllowIps (drops unparsable entries) in package util outside tests and hooks"},
		}, nil
	})
}
