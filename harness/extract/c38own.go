package extract

import (
	"bytes"
	"fmt"
	"go/ast"
	"go/printer"
	"go/token"
	"path/filepath"
	"strings"
)

// C38, ownership of the pooled packet buffers: the places where the source
// decides between a copy and a slice of the buffer, resp. between clearing
// and keeping the pointer to it (Model/BufOwn.lean, Variant).
//
//   c38RecycleClears         Conn.RecycleReadPacket assigns nil to currentEphemeralBuffer after bufPool.Put
//   c38CopySwitchResponse    readHandshakeResponse keeps a copy of the auth switch response
//   c38CopyNullAuth          readHandshakeResponse keeps a copy of a NUL-terminated auth response
//   c38MinPacketSize         mysql.MinPacketSize (bucketpool.New(MinPacketSize, MaxPacketSize))
//   c38ExecuteCommandData    how ExecuteCommand hands the packet's bytes to each handler
//
// recycleWritePacket and the bucket arithmetic of util/bucketpool have no
// variant in the model: their shape is checked here and anything else is an
// error (a broken tie).

func c38ownSrc(fset *token.FileSet, n ast.Node) string {
	var b bytes.Buffer
	printer.Fprint(&b, fset, n)
	return strings.Join(strings.Fields(b.String()), " ")
}

// position of the first statement of list whose source satisfies pred, or -1
func c38ownIndex(fset *token.FileSet, list []ast.Stmt, pred func(string) bool) int {
	for i, st := range list {
		if pred(c38ownSrc(fset, st)) {
			return i
		}
	}
	return -1
}

// every statement list inside body (the body itself and all nested blocks)
func c38ownBlocks(body *ast.BlockStmt) [][]ast.Stmt {
	var out [][]ast.Stmt
	ast.Inspect(body, func(n ast.Node) bool {
		switch b := n.(type) {
		case *ast.BlockStmt:
			out = append(out, b.List)
		case *ast.CaseClause:
			out = append(out, b.Body)
		}
		return true
	})
	return out
}

func c38ownIsCopyOf(src, lhs, x string) bool {
	src = strings.ReplaceAll(src, " ", "")
	for _, zero := range []string{"[]byte(nil)", "[]byte{}", "make([]byte,0)", "make([]byte,0,len(" + x + "))"} {
		if src == lhs+"=append("+zero+","+x+"...)" {
			return true
		}
	}
	return false
}

func init() {
	register(func(repo string) ([]fact, error) {
		fset := token.NewFileSet()
		var facts []fact

		// ---- mysql/conn.go
		myFiles, err := c07ParseDir(fset, filepath.Join(repo, "mysql"))
		if err != nil {
			return nil, err
		}
		rec := c38FindFunc(myFiles, "Conn.RecycleReadPacket")
		if rec == nil || rec.Body == nil {
			return nil, fmt.Errorf("c38own: Conn.RecycleReadPacket not found")
		}
		isPut := func(s string) bool { return s == "bufPool.Put(c.currentEphemeralBuffer)" }
		isClear := func(s string) bool { return s == "c.currentEphemeralBuffer = nil" }
		puts, clears := 0, false
		for _, blk := range c38ownBlocks(rec.Body) {
			p := c38ownIndex(fset, blk, isPut)
			if p < 0 {
				continue
			}
			puts++
			// the pointer is cleared in the block of the Put, after it, with nothing but simple statements between
			if c := c38ownIndex(fset, blk[p+1:], isClear); c >= 0 {
				clears = true
				for _, st := range blk[p+1 : p+1+c] {
					if _, ok := st.(*ast.ReturnStmt); ok {
						clears = false
					}
				}
			}
		}
		if puts != 1 {
			return nil, fmt.Errorf("c38own: expected one bufPool.Put(c.currentEphemeralBuffer) in RecycleReadPacket, found %d", puts)
		}
		if !strings.Contains(c38ownSrc(fset, rec.Body), "c.currentEphemeralPolicy != ephemeralRead") ||
			!strings.Contains(c38ownSrc(fset, rec.Body), "c.currentEphemeralPolicy = ephemeralUnused") {
			return nil, fmt.Errorf("c38own: RecycleReadPacket no longer checks and resets currentEphemeralPolicy the way the model does")
		}
		facts = append(facts, fact{name: "c38RecycleClears", typ: "Bool", val: c38Bool(clears),
			doc: "C38: Conn.RecycleReadPacket sets currentEphemeralBuffer to nil once bufPool.Put has the buffer"})

		rw := c38FindFunc(myFiles, "Conn.recycleWritePacket")
		if rw == nil || rw.Body == nil {
			return nil, fmt.Errorf("c38own: Conn.recycleWritePacket not found")
		}
		p := c38ownIndex(fset, rw.Body.List, isPut)
		if p < 0 || c38ownIndex(fset, rw.Body.List[p+1:], isClear) < 0 ||
			!strings.Contains(c38ownSrc(fset, rw.Body), "c.currentEphemeralPolicy != ephemeralWrite") {
			return nil, fmt.Errorf("c38own: recycleWritePacket no longer has the shape the model transliterates (policy check, Put, pointer cleared)")
		}
		for _, name := range []string{"Conn.ReadEphemeralPacket", "Conn.ReadEphemeralPacketDirect", "Conn.StartEphemeralPacket"} {
			fd := c38FindFunc(myFiles, name)
			if fd == nil || fd.Body == nil {
				return nil, fmt.Errorf("c38own: %s not found", name)
			}
			src := c38ownSrc(fset, fd.Body)
			if !strings.Contains(src, "c.currentEphemeralPolicy != ephemeralUnused") ||
				!strings.Contains(src, "c.currentEphemeralBuffer = bufPool.Get(length)") {
				return nil, fmt.Errorf("c38own: %s no longer has the shape the model transliterates (policy check, bufPool.Get(length))", name)
			}
		}
		min, err := pktConstInt(repo, "mysql/conn.go", "MinPacketSize")
		if err != nil {
			return nil, err
		}
		facts = append(facts, fact{name: "c38MinPacketSize", typ: "Nat", val: min,
			doc: "mysql/conn.go: MinPacketSize, the buffer size of the first bucket of bufPool"})
		poolDecl := false
		for _, f := range myFiles {
			for _, d := range f.Decls {
				if gd, ok := d.(*ast.GenDecl); ok && gd.Tok == token.VAR {
					if c38ownSrc(fset, gd) == "var bufPool = bucketpool.New(MinPacketSize, MaxPacketSize)" {
						poolDecl = true
					}
				}
			}
		}
		if !poolDecl {
			return nil, fmt.Errorf("c38own: var bufPool = bucketpool.New(MinPacketSize, MaxPacketSize) not found in package mysql")
		}

		// ---- proxy/server/client_conn.go: readHandshakeResponse
		srvFiles, err := c07ParseDir(fset, filepath.Join(repo, "proxy", "server"))
		if err != nil {
			return nil, err
		}
		rh := c38FindFunc(srvFiles, "ClientConn.readHandshakeResponse")
		if rh == nil || rh.Body == nil {
			return nil, fmt.Errorf("c38own: ClientConn.readHandshakeResponse not found")
		}
		if len(rh.Body.List) < 4 || c38ownSrc(fset, rh.Body.List[2]) != "data, err := cc.ReadEphemeralPacketDirect()" ||
			c38ownSrc(fset, rh.Body.List[3]) != "defer cc.RecycleReadPacket()" {
			return nil, fmt.Errorf("c38own: readHandshakeResponse no longer starts with the read and the deferred RecycleReadPacket")
		}
		// the NUL-terminated form
		nullFound, nullCopy := false, false
		for _, blk := range c38ownBlocks(rh.Body) {
			i := c38ownIndex(fset, blk, func(s string) bool { return s == "authResponse, pos, ok = mysql.ReadNullByte(data, pos)" })
			if i < 0 {
				continue
			}
			nullFound = true
			for _, st := range blk[i+1:] {
				if c38ownIsCopyOf(c38ownSrc(fset, st), "authResponse", "authResponse") {
					nullCopy = true
				}
			}
		}
		if !nullFound {
			return nil, fmt.Errorf("c38own: authResponse, pos, ok = mysql.ReadNullByte(data, pos) not found in readHandshakeResponse")
		}
		if !strings.Contains(c38ownSrc(fset, rh.Body), "authResponse, pos, ok = mysql.ReadBytesCopy(data, pos, int(l))") {
			return nil, fmt.Errorf("c38own: the length-prefixed auth response is no longer read with mysql.ReadBytesCopy")
		}
		facts = append(facts, fact{name: "c38CopyNullAuth", typ: "Bool", val: c38Bool(nullCopy),
			doc: "C38: readHandshakeResponse copies the NUL-terminated auth response out of the packet buffer"})
		// the auth switch response
		swFound, swCopy := false, false
		for _, blk := range c38ownBlocks(rh.Body) {
			w := c38ownIndex(fset, blk, func(s string) bool { return s == "cc.WriteAuthSwitchRequest(info.AuthPlugin)" })
			if w < 0 {
				continue
			}
			if w == 0 || c38ownSrc(fset, blk[w-1]) != "cc.RecycleReadPacket()" {
				return nil, fmt.Errorf("c38own: WriteAuthSwitchRequest is no longer preceded by cc.RecycleReadPacket()")
			}
			for _, st := range blk[w+1:] {
				s := c38ownSrc(fset, st)
				switch {
				case s == "info.AuthResponse, err = cc.ReadEphemeralPacketDirect()":
					swFound = true
				case s == "data, err = cc.ReadEphemeralPacketDirect()":
					swFound = true
				case c38ownIsCopyOf(s, "info.AuthResponse", "data"):
					swCopy = true
				}
			}
		}
		if !swFound {
			return nil, fmt.Errorf("c38own: the read of the auth switch response was not found in readHandshakeResponse")
		}
		facts = append(facts, fact{name: "c38CopySwitchResponse", typ: "Bool", val: c38Bool(swCopy),
			doc: "C38: readHandshakeResponse copies the auth switch response out of the packet buffer"})

		// ---- proxy/server/executor.go: what ExecuteCommand does with the packet's bytes
		ec := c38FindFunc(srvFiles, "SessionExecutor.ExecuteCommand")
		if ec == nil || ec.Body == nil {
			return nil, fmt.Errorf("c38own: SessionExecutor.ExecuteCommand not found")
		}
		var uses []string
		var bad error
		ast.Inspect(ec.Body, func(n ast.Node) bool {
			cc, ok := n.(*ast.CaseClause)
			if !ok || len(cc.List) == 0 {
				return true
			}
			label := c38ownSrc(fset, cc.List[0])
			var parents []ast.Node
			ast.Inspect(cc, func(m ast.Node) bool {
				if m == nil {
					parents = parents[:len(parents)-1]
					return true
				}
				if id, ok := m.(*ast.Ident); ok && id.Name == "data" {
					how := "?"
					if len(parents) > 0 {
						if call, ok := parents[len(parents)-1].(*ast.CallExpr); ok {
							how = c38ownSrc(fset, call.Fun)
						}
					}
					switch how {
					case "string", "len", "copy":
						// a copy of the bytes, or their number
					case "se.handleFieldList", "se.handleStmtClose", "se.handleStmtReset":
						// read while the command runs (checked below)
					default:
						bad = fmt.Errorf("c38own: ExecuteCommand case %s uses the packet buffer in %s(…): not a copy the model knows", label, how)
					}
					uses = append(uses, fmt.Sprintf("(%q, %q)", label, how))
				}
				parents = append(parents, m)
				return true
			})
			return false
		})
		if bad != nil {
			return nil, bad
		}
		// the three handlers that get the buffer itself keep nothing of it
		for name, allowed := range map[string][]string{
			"SessionExecutor.handleFieldList": {"bytes.IndexByte(data, 0x00)", "string(data[0:index])", "string(data[index+1:])"},
			"SessionExecutor.handleStmtClose": {"len(data)", "binary.LittleEndian.Uint32(data[0:4])"},
			"SessionExecutor.handleStmtReset": {"len(data)", "binary.LittleEndian.Uint32(data[0:4])"},
		} {
			fd := c38FindFunc(srvFiles, name)
			if fd == nil || fd.Body == nil {
				return nil, fmt.Errorf("c38own: %s not found", name)
			}
			src := c38ownSrc(fset, fd.Body)
			for _, a := range allowed {
				src = strings.ReplaceAll(src, a, "")
			}
			rest := false
			for _, w := range strings.FieldsFunc(src, func(r rune) bool {
				return !(r == '_' || r >= '0' && r <= '9' || r >= 'a' && r <= 'z' || r >= 'A' && r <= 'Z')
			}) {
				if w == "data" {
					rest = true
				}
			}
			if rest {
				return nil, fmt.Errorf("c38own: %s uses the packet buffer in a way the model does not know (it may keep a slice of it)", name)
			}
		}
		facts = append(facts, fact{name: "c38ExecuteCommandData", typ: "List (String × String)", val: "[" + strings.Join(uses, ", ") + "]",
			doc: "C38: every use of the packet buffer `data` in ExecuteCommand: the case label and the function it is an argument of (string/copy/len = a copy or the length; handleFieldList/handleStmtClose/handleStmtReset only read it while the command runs)"})
		return facts, nil
	})
}
