package extract

import (
	"bytes"
	"fmt"
	"go/ast"
	"go/parser"
	"go/printer"
	"go/token"
	"path/filepath"
	"strconv"
	"strings"
)

// C01: the operator dispatch of the routing code of proxy/plan/plan_select.go,
// read from the source on every run and compared by theorems of Props/C01.lean
// with the tables the routing model (Model/Route.lean) is built from:
//
//	getFindTableIndexesFunc  the statements executed for the sharding column for
//	                         each of EQ NE GT GE LT LE (conditions on `op`
//	                         resolved, `if err != nil` returns dropped), the
//	                         default case, and the non-sharding-column guard
//	adjustShardIndex         its statements
//	inverseOperator          the case list
//	mergeBinaryOperationRouteResult
//	                         for LogicAnd / LogicOr the `if cond { return … }`
//	                         list with the conditions translated into Lean
//	                         Boolean functions of lHas, rHas
//	handleJoinTree / rewriteOnCondition
//	                         the Boolean expressions that decide whether the ON
//	                         condition of a join may prune the route result
//	getShardingCompareValue  the literal kinds whose value is handed to the rule,
//	                         what the other kinds return, and per rule type the
//	                         test after which a string is not routed by
//
// A changed case, operator, bound or condition changes a generated definition
// and breaks the corresponding theorem.

func init() { register(extractC01) }

type c01x struct {
	fset *token.FileSet
	file *ast.File
}

func (x *c01x) src(n ast.Node) string {
	var b bytes.Buffer
	if err := printer.Fprint(&b, x.fset, n); err != nil {
		return "?"
	}
	return strings.Join(strings.Fields(b.String()), " ")
}

func (x *c01x) fn(name string) (*ast.FuncDecl, error) {
	for _, d := range x.file.Decls {
		if fd, ok := d.(*ast.FuncDecl); ok && fd.Name.Name == name && fd.Body != nil {
			return fd, nil
		}
	}
	return nil, fmt.Errorf("C01: function %s not found in proxy/plan/plan_select.go", name)
}

func c01IsErrCheck(s *ast.IfStmt) bool {
	be, ok := s.Cond.(*ast.BinaryExpr)
	if !ok || be.Op != token.NEQ || s.Init != nil {
		return false
	}
	l, ok1 := be.X.(*ast.Ident)
	r, ok2 := be.Y.(*ast.Ident)
	return ok1 && ok2 && l.Name == "err" && r.Name == "nil"
}

// c01OpConst: `opcode.X` -> X
func c01OpConst(e ast.Expr) (string, bool) {
	se, ok := e.(*ast.SelectorExpr)
	if !ok {
		return "", false
	}
	id, ok := se.X.(*ast.Ident)
	if !ok || id.Name != "opcode" {
		return "", false
	}
	return se.Sel.Name, true
}

// evalOp evaluates a condition that only compares `op` with opcode constants.
func (x *c01x) evalOp(e ast.Expr, op string) (val bool, ok bool) {
	switch v := e.(type) {
	case *ast.ParenExpr:
		return x.evalOp(v.X, op)
	case *ast.BinaryExpr:
		switch v.Op {
		case token.LOR, token.LAND:
			a, ok1 := x.evalOp(v.X, op)
			b, ok2 := x.evalOp(v.Y, op)
			if !ok1 || !ok2 {
				return false, false
			}
			if v.Op == token.LOR {
				return a || b, true
			}
			return a && b, true
		case token.EQL, token.NEQ:
			id, isID := v.X.(*ast.Ident)
			c, isC := c01OpConst(v.Y)
			if !isID || id.Name != "op" || !isC {
				return false, false
			}
			if v.Op == token.EQL {
				return c == op, true
			}
			return c != op, true
		}
	}
	return false, false
}

// trace lists the statements executed when `op` is the given constant.
// terminated: the last statement is a return.
func (x *c01x) trace(stmts []ast.Stmt, op string) (out []string, terminated bool, err error) {
	for _, st := range stmts {
		switch s := st.(type) {
		case *ast.AssignStmt:
			out = append(out, x.src(s))
		case *ast.ReturnStmt:
			out = append(out, x.src(s))
			return out, true, nil
		case *ast.IfStmt:
			if c01IsErrCheck(s) {
				continue
			}
			if s.Init != nil {
				body, _, e := x.trace(s.Body.List, op)
				if e != nil {
					return nil, false, e
				}
				if s.Else != nil {
					return nil, false, fmt.Errorf("C01: unexpected else after %q", x.src(s.Init))
				}
				out = append(out, "if "+x.src(s.Init)+"; "+x.src(s.Cond)+" {")
				out = append(out, body...)
				out = append(out, "}")
				continue
			}
			v, ok := x.evalOp(s.Cond, op)
			if !ok {
				return nil, false, fmt.Errorf("C01: condition %q is not a comparison of op with opcode constants", x.src(s.Cond))
			}
			var taken []ast.Stmt
			if v {
				taken = s.Body.List
			} else if s.Else != nil {
				blk, isBlk := s.Else.(*ast.BlockStmt)
				if !isBlk {
					return nil, false, fmt.Errorf("C01: unexpected else-if in getFindTableIndexesFunc")
				}
				taken = blk.List
			}
			sub, term, e := x.trace(taken, op)
			if e != nil {
				return nil, false, e
			}
			out = append(out, sub...)
			if term {
				return out, true, nil
			}
		default:
			return nil, false, fmt.Errorf("C01: unexpected statement %q in getFindTableIndexesFunc", x.src(st))
		}
	}
	return out, false, nil
}

func c01LeanStr(s string) string { return strconv.Quote(s) }

func c01LeanStrList(l []string) string {
	q := make([]string, len(l))
	for i, s := range l {
		q[i] = c01LeanStr(s)
	}
	return "[" + strings.Join(q, ", ") + "]"
}

// boolExpr translates a Go Boolean expression over the given identifiers into Lean.
// tp: translate `join.Tp == ast.X` into (tp == "X"). subst: identifiers defined by `name := expr`.
func (x *c01x) boolExpr(e ast.Expr, idents map[string]bool, subst map[string]ast.Expr) (string, error) {
	switch v := e.(type) {
	case *ast.ParenExpr:
		return x.boolExpr(v.X, idents, subst)
	case *ast.Ident:
		if v.Name == "true" || v.Name == "false" {
			return v.Name, nil
		}
		if idents[v.Name] {
			return v.Name, nil
		}
		if d, ok := subst[v.Name]; ok {
			return x.boolExpr(d, idents, subst)
		}
	case *ast.UnaryExpr:
		if v.Op == token.NOT {
			a, err := x.boolExpr(v.X, idents, subst)
			if err != nil {
				return "", err
			}
			return "(!" + a + ")", nil
		}
	case *ast.BinaryExpr:
		switch v.Op {
		case token.LAND, token.LOR:
			a, err := x.boolExpr(v.X, idents, subst)
			if err != nil {
				return "", err
			}
			b, err := x.boolExpr(v.Y, idents, subst)
			if err != nil {
				return "", err
			}
			op := " && "
			if v.Op == token.LOR {
				op = " || "
			}
			return "(" + a + op + b + ")", nil
		case token.EQL, token.NEQ:
			op := " == "
			if v.Op == token.NEQ {
				op = " != "
			}
			// join.Tp == ast.X
			if l, ok := v.X.(*ast.SelectorExpr); ok && x.src(l) == "join.Tp" {
				if r, ok := v.Y.(*ast.SelectorExpr); ok {
					if id, ok := r.X.(*ast.Ident); ok && id.Name == "ast" {
						return "(tp" + op + strconv.Quote(r.Sel.Name) + ")", nil
					}
				}
			}
			a, err := x.boolExpr(v.X, idents, subst)
			if err != nil {
				return "", err
			}
			b, err := x.boolExpr(v.Y, idents, subst)
			if err != nil {
				return "", err
			}
			return "(" + a + op + b + ")", nil
		}
	}
	return "", fmt.Errorf("C01: cannot translate Boolean expression %q", x.src(e))
}

// mergeReturn translates `return has, list` of mergeBinaryOperationRouteResult.
func (x *c01x) mergeReturn(r *ast.ReturnStmt) (string, error) {
	if len(r.Results) != 2 {
		return "", fmt.Errorf("C01: unexpected return %q", x.src(r))
	}
	has, ok := r.Results[0].(*ast.Ident)
	if !ok || (has.Name != "true" && has.Name != "false") {
		return "", fmt.Errorf("C01: unexpected first result in %q", x.src(r))
	}
	var code string
	switch x.src(r.Results[1]) {
	case "nil":
		code = "nil"
	case "lResult":
		code = "left"
	case "rResult":
		code = "right"
	case "interList(lResult, rResult)":
		code = "inter"
	case "unionList(lResult, rResult)":
		code = "union"
	default:
		return "", fmt.Errorf("C01: unexpected second result in %q", x.src(r))
	}
	return has.Name + ", " + strconv.Quote(code), nil
}

func extractC01(repo string) ([]fact, error) {
	x := &c01x{fset: token.NewFileSet()}
	var err error
	x.file, err = parser.ParseFile(x.fset, filepath.Join(repo, "proxy", "plan", "plan_select.go"), nil, 0)
	if err != nil {
		return nil, fmt.Errorf("C01: %v", err)
	}
	var facts []fact

	// ---- getFindTableIndexesFunc
	fd, err := x.fn("getFindTableIndexesFunc")
	if err != nil {
		return nil, err
	}
	var lit *ast.FuncLit
	ast.Inspect(fd.Body, func(n ast.Node) bool {
		if fl, ok := n.(*ast.FuncLit); ok && lit == nil {
			lit = fl
		}
		return lit == nil
	})
	if lit == nil || len(lit.Body.List) != 2 {
		return nil, fmt.Errorf("C01: getFindTableIndexesFunc: closure with a guard and a switch not found")
	}
	guard, ok := lit.Body.List[0].(*ast.IfStmt)
	if !ok || guard.Init != nil || guard.Else != nil || len(guard.Body.List) != 1 {
		return nil, fmt.Errorf("C01: getFindTableIndexesFunc: non-sharding-column guard not found")
	}
	facts = append(facts, fact{"c01FindOtherColumn", "List String",
		c01LeanStrList([]string{x.src(guard.Cond), x.src(guard.Body.List[0])}),
		"proxy/plan/plan_select.go getFindTableIndexesFunc: the guard for a column that is not the sharding column"})
	sw, ok := lit.Body.List[1].(*ast.SwitchStmt)
	if !ok || x.src(sw.Tag) != "op" {
		return nil, fmt.Errorf("C01: getFindTableIndexesFunc: switch op not found")
	}
	clauseOf := func(op string) *ast.CaseClause {
		var dflt *ast.CaseClause
		for _, c := range sw.Body.List {
			cc := c.(*ast.CaseClause)
			if cc.List == nil {
				dflt = cc
			}
			for _, e := range cc.List {
				if name, ok := c01OpConst(e); ok && name == op {
					return cc
				}
			}
		}
		return dflt
	}
	var rows []string
	for _, op := range []string{"EQ", "NE", "GT", "GE", "LT", "LE"} {
		cc := clauseOf(op)
		if cc == nil {
			return nil, fmt.Errorf("C01: getFindTableIndexesFunc: no case for %s and no default", op)
		}
		tr, term, err := x.trace(cc.Body, op)
		if err != nil {
			return nil, err
		}
		if !term {
			return nil, fmt.Errorf("C01: getFindTableIndexesFunc: case of %s does not end in a return", op)
		}
		rows = append(rows, "("+c01LeanStr(op)+", "+c01LeanStrList(tr)+")")
	}
	facts = append(facts, fact{"c01FindDispatch", "List (String × List String)", "[" + strings.Join(rows, ",\n  ") + "]",
		"proxy/plan/plan_select.go getFindTableIndexesFunc: statements executed for the sharding column, per operator"})
	if d := clauseOf("\x00"); d != nil {
		tr, _, err := x.trace(d.Body, "\x00")
		if err != nil {
			return nil, err
		}
		facts = append(facts, fact{"c01FindDefault", "List String", c01LeanStrList(tr),
			"proxy/plan/plan_select.go getFindTableIndexesFunc: the default case"})
	} else {
		return nil, fmt.Errorf("C01: getFindTableIndexesFunc: default case not found")
	}

	// ---- adjustShardIndex
	fd, err = x.fn("adjustShardIndex")
	if err != nil {
		return nil, err
	}
	var adj []string
	for _, st := range fd.Body.List {
		if is, ok := st.(*ast.IfStmt); ok && is.Init == nil && is.Else == nil {
			adj = append(adj, "if "+x.src(is.Cond)+" {")
			for _, b := range is.Body.List {
				adj = append(adj, x.src(b))
			}
			adj = append(adj, "}")
		} else {
			adj = append(adj, x.src(st))
		}
	}
	facts = append(facts, fact{"c01AdjustShardIndex", "List String", c01LeanStrList(adj),
		"proxy/plan/plan_select.go adjustShardIndex: its statements"})

	// ---- inverseOperator
	fd, err = x.fn("inverseOperator")
	if err != nil {
		return nil, err
	}
	if len(fd.Body.List) != 1 {
		return nil, fmt.Errorf("C01: inverseOperator: a single switch expected")
	}
	isw, ok := fd.Body.List[0].(*ast.SwitchStmt)
	if !ok || x.src(isw.Tag) != "op" {
		return nil, fmt.Errorf("C01: inverseOperator: switch op not found")
	}
	var inv []string
	invDefault := ""
	for _, c := range isw.Body.List {
		cc := c.(*ast.CaseClause)
		if len(cc.Body) != 1 {
			return nil, fmt.Errorf("C01: inverseOperator: a case with one return expected")
		}
		ret, ok := cc.Body[0].(*ast.ReturnStmt)
		if !ok || len(ret.Results) != 1 {
			return nil, fmt.Errorf("C01: inverseOperator: a case with one return expected")
		}
		if cc.List == nil {
			invDefault = x.src(ret.Results[0])
			continue
		}
		to, ok := c01OpConst(ret.Results[0])
		if !ok {
			return nil, fmt.Errorf("C01: inverseOperator: case returns %q", x.src(ret.Results[0]))
		}
		for _, e := range cc.List {
			from, ok := c01OpConst(e)
			if !ok {
				return nil, fmt.Errorf("C01: inverseOperator: case %q", x.src(e))
			}
			inv = append(inv, "("+c01LeanStr(from)+", "+c01LeanStr(to)+")")
		}
	}
	if invDefault == "" {
		return nil, fmt.Errorf("C01: inverseOperator: default case not found")
	}
	facts = append(facts, fact{"c01InverseOperator", "List (String × String)", "[" + strings.Join(inv, ", ") + "]",
		"proxy/plan/plan_select.go inverseOperator: case list"})
	facts = append(facts, fact{"c01InverseDefault", "String", c01LeanStr(invDefault),
		"proxy/plan/plan_select.go inverseOperator: what the default case returns"})

	// ---- mergeBinaryOperationRouteResult
	fd, err = x.fn("mergeBinaryOperationRouteResult")
	if err != nil {
		return nil, err
	}
	if len(fd.Body.List) != 2 {
		return nil, fmt.Errorf("C01: mergeBinaryOperationRouteResult: a switch and a final return expected")
	}
	msw, ok := fd.Body.List[0].(*ast.SwitchStmt)
	if !ok || x.src(msw.Tag) != "op" {
		return nil, fmt.Errorf("C01: mergeBinaryOperationRouteResult: switch op not found")
	}
	fin, ok := fd.Body.List[1].(*ast.ReturnStmt)
	if !ok {
		return nil, fmt.Errorf("C01: mergeBinaryOperationRouteResult: final return not found")
	}
	finS, err := x.mergeReturn(fin)
	if err != nil {
		return nil, err
	}
	facts = append(facts, fact{"c01MergeEnd", "Bool × String", "(" + finS + ")",
		"proxy/plan/plan_select.go mergeBinaryOperationRouteResult: the return after the switch"})
	hasIdents := map[string]bool{"lHas": true, "rHas": true}
	seen := map[string]bool{}
	for _, c := range msw.Body.List {
		cc := c.(*ast.CaseClause)
		if len(cc.List) != 1 {
			return nil, fmt.Errorf("C01: mergeBinaryOperationRouteResult: one operator per case expected")
		}
		name, ok := c01OpConst(cc.List[0])
		if !ok || (name != "LogicAnd" && name != "LogicOr") {
			return nil, fmt.Errorf("C01: mergeBinaryOperationRouteResult: unexpected case %q", x.src(cc.List[0]))
		}
		var ds []string
		for _, st := range cc.Body {
			switch s := st.(type) {
			case *ast.IfStmt:
				if s.Init != nil || s.Else != nil || len(s.Body.List) != 1 {
					return nil, fmt.Errorf("C01: mergeBinaryOperationRouteResult: `if cond { return … }` expected")
				}
				ret, ok := s.Body.List[0].(*ast.ReturnStmt)
				if !ok {
					return nil, fmt.Errorf("C01: mergeBinaryOperationRouteResult: `if cond { return … }` expected")
				}
				cond, err := x.boolExpr(s.Cond, hasIdents, nil)
				if err != nil {
					return nil, err
				}
				r, err := x.mergeReturn(ret)
				if err != nil {
					return nil, err
				}
				ds = append(ds, "(fun lHas rHas => "+cond+", "+r+")")
			case *ast.ReturnStmt:
				r, err := x.mergeReturn(s)
				if err != nil {
					return nil, err
				}
				ds = append(ds, "(fun _ _ => true, "+r+")")
			default:
				return nil, fmt.Errorf("C01: mergeBinaryOperationRouteResult: unexpected statement %q", x.src(st))
			}
		}
		seen[name] = true
		facts = append(facts, fact{"c01Merge" + strings.TrimPrefix(name, "Logic"), "List ((Bool → Bool → Bool) × Bool × String)",
			"[" + strings.Join(ds, ",\n  ") + "]",
			"proxy/plan/plan_select.go mergeBinaryOperationRouteResult: case opcode." + name + " as a decision list"})
	}
	if !seen["LogicAnd"] || !seen["LogicOr"] {
		return nil, fmt.Errorf("C01: mergeBinaryOperationRouteResult: cases LogicAnd and LogicOr not both found")
	}

	// ---- handleJoinTree / rewriteOnCondition: when may an ON condition prune
	fd, err = x.fn("handleJoinTree")
	if err != nil {
		return nil, err
	}
	subst := map[string]ast.Expr{}
	var leftArg, onArg ast.Expr
	ast.Inspect(fd.Body, func(n ast.Node) bool {
		switch v := n.(type) {
		case *ast.AssignStmt:
			if v.Tok == token.DEFINE && len(v.Lhs) == 1 && len(v.Rhs) == 1 {
				if id, ok := v.Lhs[0].(*ast.Ident); ok {
					subst[id.Name] = v.Rhs[0]
				}
			}
		case *ast.CallExpr:
			if id, ok := v.Fun.(*ast.Ident); ok && len(v.Args) == 3 {
				if id.Name == "handleJoinTree" {
					leftArg = v.Args[2]
				}
				if id.Name == "rewriteOnCondition" {
					onArg = v.Args[2]
				}
			}
		}
		return true
	})
	if leftArg == nil || onArg == nil {
		return nil, fmt.Errorf("C01: handleJoinTree: the recursive call and the rewriteOnCondition call with their third argument not found")
	}
	joinIdents := map[string]bool{"restricts": true}
	ls, err := x.boolExpr(leftArg, joinIdents, subst)
	if err != nil {
		return nil, err
	}
	os, err := x.boolExpr(onArg, joinIdents, subst)
	if err != nil {
		return nil, err
	}
	facts = append(facts, fact{"c01JoinLeftRestricts", "Bool → String → Bool", "fun restricts tp => " + ls,
		"proxy/plan/plan_select.go handleJoinTree: `restricts` passed to the left tree (tp = join.Tp)"})
	facts = append(facts, fact{"c01JoinOnPrunes", "Bool → String → Bool", "fun restricts tp => " + os,
		"proxy/plan/plan_select.go handleJoinTree: `prune` passed to rewriteOnCondition (tp = join.Tp)"})
	fd, err = x.fn("rewriteOnCondition")
	if err != nil {
		return nil, err
	}
	var interCond ast.Expr
	for _, st := range fd.Body.List {
		if is, ok := st.(*ast.IfStmt); ok && !c01IsErrCheck(is) && strings.Contains(x.src(is.Body), "Inter(result)") {
			interCond = is.Cond
		}
	}
	if interCond == nil {
		return nil, fmt.Errorf("C01: rewriteOnCondition: the guard of Inter(result) not found")
	}
	ic, err := x.boolExpr(interCond, map[string]bool{"has": true, "prune": true}, nil)
	if err != nil {
		return nil, err
	}
	facts = append(facts, fact{"c01OnInter", "Bool → Bool → Bool", "fun has prune => " + ic,
		"proxy/plan/plan_select.go rewriteOnCondition: when the route result is intersected"})

	// ---- getShardingCompareValue: the kinds handed to the rule, and per rule type the test
	// after which a string is reported as not routable
	fd, err = x.fn("getShardingCompareValue")
	if err != nil {
		return nil, err
	}
	var kinds []string
	unrouted := ""
	var strRules []string
	notRoutable := func(st ast.Stmt) (string, bool) {
		ret, ok := st.(*ast.ReturnStmt)
		if !ok {
			return "", false
		}
		return x.src(ret), true
	}
	for _, st := range fd.Body.List {
		switch v := st.(type) {
		case *ast.SwitchStmt:
			if x.src(v.Tag) != "x.Kind()" {
				return nil, fmt.Errorf("C01: getShardingCompareValue: unexpected switch on %q", x.src(v.Tag))
			}
			for _, c := range v.Body.List {
				cc := c.(*ast.CaseClause)
				if cc.List == nil {
					if len(cc.Body) != 1 {
						return nil, fmt.Errorf("C01: getShardingCompareValue: default of the kind switch is not a single return")
					}
					r, ok := notRoutable(cc.Body[0])
					if !ok {
						return nil, fmt.Errorf("C01: getShardingCompareValue: default of the kind switch is not a return")
					}
					unrouted = r
					continue
				}
				if len(cc.Body) != 0 {
					return nil, fmt.Errorf("C01: getShardingCompareValue: a kind case with statements")
				}
				for _, e := range cc.List {
					se, ok := e.(*ast.SelectorExpr)
					if !ok {
						return nil, fmt.Errorf("C01: getShardingCompareValue: kind case %q", x.src(e))
					}
					kinds = append(kinds, se.Sel.Name)
				}
			}
		case *ast.IfStmt:
			if c01IsErrCheck(v) {
				continue
			}
			// if s, ok := v.(string); ok { switch rule.GetType() { … } }
			if x.src(v.Init) != "s, ok := v.(string)" || x.src(v.Cond) != "ok" || len(v.Body.List) != 1 {
				return nil, fmt.Errorf("C01: getShardingCompareValue: unexpected if %q", x.src(v.Cond))
			}
			sw, ok := v.Body.List[0].(*ast.SwitchStmt)
			if !ok || x.src(sw.Tag) != "rule.GetType()" {
				return nil, fmt.Errorf("C01: getShardingCompareValue: switch rule.GetType() not found")
			}
			for _, c := range sw.Body.List {
				cc := c.(*ast.CaseClause)
				if cc.List == nil {
					return nil, fmt.Errorf("C01: getShardingCompareValue: the rule-type switch has a default case")
				}
				var names []string
				for _, e := range cc.List {
					se, ok := e.(*ast.SelectorExpr)
					if !ok {
						return nil, fmt.Errorf("C01: getShardingCompareValue: rule type case %q", x.src(e))
					}
					names = append(names, c01LeanStr(se.Sel.Name))
				}
				if len(cc.Body) != 1 {
					return nil, fmt.Errorf("C01: getShardingCompareValue: a rule-type case that is not a single if")
				}
				is, ok := cc.Body[0].(*ast.IfStmt)
				if !ok || is.Else != nil || len(is.Body.List) != 1 {
					return nil, fmt.Errorf("C01: getShardingCompareValue: a rule-type case that is not a single if")
				}
				r, ok := notRoutable(is.Body.List[0])
				if !ok || r != "return nil, false, nil" {
					return nil, fmt.Errorf("C01: getShardingCompareValue: the if of a rule-type case does not return nil, false, nil")
				}
				test := x.src(is.Cond)
				if is.Init != nil {
					test = x.src(is.Init) + "; " + test
				}
				strRules = append(strRules, "(["+strings.Join(names, ", ")+"], "+c01LeanStr(test)+")")
			}
		}
	}
	if len(kinds) == 0 || unrouted == "" || len(strRules) == 0 {
		return nil, fmt.Errorf("C01: getShardingCompareValue: kind switch, its default or the rule-type switch not found")
	}
	last, ok := fd.Body.List[len(fd.Body.List)-1].(*ast.ReturnStmt)
	if !ok {
		return nil, fmt.Errorf("C01: getShardingCompareValue: does not end with a return")
	}
	facts = append(facts, fact{"c01RoutedKinds", "List String", c01LeanStrList(kinds),
		"proxy/plan/plan_select.go getShardingCompareValue: the literal kinds whose value is handed to the rule"})
	facts = append(facts, fact{"c01UnroutedKind", "String", c01LeanStr(unrouted),
		"proxy/plan/plan_select.go getShardingCompareValue: what every other kind returns"})
	facts = append(facts, fact{"c01StringRules", "List (List String × String)", "[" + strings.Join(strRules, ",\n  ") + "]",
		"proxy/plan/plan_select.go getShardingCompareValue: per rule type, the test after which a string is reported as not routable"})
	facts = append(facts, fact{"c01RoutedReturn", "String", c01LeanStr(x.src(last)),
		"proxy/plan/plan_select.go getShardingCompareValue: the final return"})

	// ---- the rule type constants: XRuleType = models.ShardY (proxy/router/rule.go), ShardY = "y" (models/shard.go)
	shardVals := map[string]string{}
	mf, err := parser.ParseFile(x.fset, filepath.Join(repo, "models", "shard.go"), nil, 0)
	if err != nil {
		return nil, fmt.Errorf("C01: %v", err)
	}
	ast.Inspect(mf, func(n ast.Node) bool {
		if vs, ok := n.(*ast.ValueSpec); ok && len(vs.Names) == 1 && len(vs.Values) == 1 {
			if bl, ok := vs.Values[0].(*ast.BasicLit); ok && bl.Kind == token.STRING {
				if v, err := strconv.Unquote(bl.Value); err == nil {
					shardVals[vs.Names[0].Name] = v
				}
			}
		}
		return true
	})
	rf, err := parser.ParseFile(x.fset, filepath.Join(repo, "proxy", "router", "rule.go"), nil, 0)
	if err != nil {
		return nil, fmt.Errorf("C01: %v", err)
	}
	var ruleTypes []string
	ast.Inspect(rf, func(n ast.Node) bool {
		if vs, ok := n.(*ast.ValueSpec); ok && len(vs.Names) == 1 && len(vs.Values) == 1 && strings.HasSuffix(vs.Names[0].Name, "RuleType") {
			if se, ok := vs.Values[0].(*ast.SelectorExpr); ok {
				if id, ok := se.X.(*ast.Ident); ok && id.Name == "models" {
					if v, ok := shardVals[se.Sel.Name]; ok {
						ruleTypes = append(ruleTypes, "("+c01LeanStr(vs.Names[0].Name)+", "+c01LeanStr(v)+")")
					}
				}
			}
		}
		return true
	})
	if len(ruleTypes) == 0 {
		return nil, fmt.Errorf("C01: the rule type constants of proxy/router/rule.go not found")
	}
	facts = append(facts, fact{"c01RuleTypes", "List (String × String)", "[" + strings.Join(ruleTypes, ", ") + "]",
		"proxy/router/rule.go, models/shard.go: the rule type constants and the strings rule.GetType() answers with"})
	return facts, nil
}
