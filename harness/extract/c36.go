package extract

import (
	"fmt"
	"go/ast"
	"go/parser"
	"go/token"
	"io/fs"
	"path/filepath"
	"strconv"
	"strings"
)

// C36: facts of mysql/sql_fingerprint.go the model depends on.
//
//   - c36ReplaceNumbersInWords: the initial value of the package variable
//     ReplaceNumbersInWords (the model fixes it to false), and
//     c36ReplaceNumbersInWordsWrites: the number of assignments to it outside
//     test files anywhere in the repository (must be 0);
//   - c36SpaceRunes: the runes isSpace compares with;
//   - c36StateCount: the number of parser states declared in the iota block
//     that starts with `unknown`.
func init() {
	register(func(repo string) ([]fact, error) {
		fset := token.NewFileSet()
		path := filepath.Join(repo, "mysql", "sql_fingerprint.go")
		file, err := parser.ParseFile(fset, path, nil, 0)
		if err != nil {
			return nil, fmt.Errorf("c36: %v", err)
		}
		var facts []fact
		foundVar, foundSpace, states := false, false, 0
		for _, d := range file.Decls {
			switch x := d.(type) {
			case *ast.GenDecl:
				for _, sp := range x.Specs {
					vs, ok := sp.(*ast.ValueSpec)
					if !ok {
						continue
					}
					if x.Tok == token.VAR && len(vs.Names) == 1 && vs.Names[0].Name == "ReplaceNumbersInWords" && len(vs.Values) == 1 {
						id, ok := vs.Values[0].(*ast.Ident)
						if !ok || (id.Name != "true" && id.Name != "false") {
							return nil, fmt.Errorf("c36: ReplaceNumbersInWords is not initialised with a boolean literal")
						}
						foundVar = true
						facts = append(facts, fact{"c36ReplaceNumbersInWords", "Bool", id.Name, "initial value of mysql.ReplaceNumbersInWords"})
					}
				}
				if x.Tok == token.CONST && len(x.Specs) > 0 {
					if vs, ok := x.Specs[0].(*ast.ValueSpec); ok && len(vs.Names) == 1 && vs.Names[0].Name == "unknown" {
						states = len(x.Specs)
					}
				}
			case *ast.FuncDecl:
				if x.Name.Name == "isSpace" && x.Recv == nil {
					var runes []string
					ast.Inspect(x.Body, func(n ast.Node) bool {
						if be, ok := n.(*ast.BinaryExpr); ok && be.Op == token.EQL {
							if lit, ok := be.Y.(*ast.BasicLit); ok && lit.Kind == token.INT {
								v, err := strconv.ParseInt(lit.Value, 0, 64)
								if err == nil {
									runes = append(runes, strconv.FormatInt(v, 10))
								}
							}
						}
						return true
					})
					if len(runes) == 0 {
						return nil, fmt.Errorf("c36: no rune comparisons found in isSpace")
					}
					foundSpace = true
					facts = append(facts, fact{"c36SpaceRunes", "List Nat", "[" + strings.Join(runes, ", ") + "]", "runes accepted by mysql.isSpace"})
				}
			}
		}
		if !foundVar {
			return nil, fmt.Errorf("c36: var ReplaceNumbersInWords not found in %s", path)
		}
		if !foundSpace {
			return nil, fmt.Errorf("c36: func isSpace not found in %s", path)
		}
		if states == 0 {
			return nil, fmt.Errorf("c36: the const block of parser states (unknown …) not found in %s", path)
		}
		facts = append(facts, fact{"c36StateCount", "Nat", strconv.Itoa(states), "number of parser states of GetFingerprint"})

		// assignments to ReplaceNumbersInWords outside test files
		writes := 0
		err = filepath.WalkDir(repo, func(p string, d fs.DirEntry, err error) error {
			if err != nil {
				return nil
			}
			if d.IsDir() {
				n := d.Name()
				if n == ".git" || n == "vendor" || n == "node_modules" {
					return filepath.SkipDir
				}
				return nil
			}
			if !strings.HasSuffix(p, ".go") || strings.HasSuffix(p, "_test.go") {
				return nil
			}
			f, err := parser.ParseFile(token.NewFileSet(), p, nil, 0)
			if err != nil {
				return nil
			}
			ast.Inspect(f, func(n ast.Node) bool {
				as, ok := n.(*ast.AssignStmt)
				if !ok {
					return true
				}
				for _, l := range as.Lhs {
					switch t := l.(type) {
					case *ast.Ident:
						if t.Name == "ReplaceNumbersInWords" && f.Name.Name == "mysql" {
							writes++
						}
					case *ast.SelectorExpr:
						if t.Sel.Name == "ReplaceNumbersInWords" {
							writes++
						}
					}
				}
				return true
			})
			return nil
		})
		if err != nil {
			return nil, err
		}
		facts = append(facts, fact{"c36ReplaceNumbersInWordsWrites", "Nat", strconv.Itoa(writes), "assignments to mysql.ReplaceNumbersInWords outside test files"})
		return facts, nil
	})
}
