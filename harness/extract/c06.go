package extract

import (
	"fmt"
	"go/ast"
	"go/parser"
	"go/token"
	"path/filepath"
	"strconv"
	"strings"
)

// Facts for C06 and C22: the separator set of parser.IsSqlSep, the keyword
// tables of mysql/constants.go the pre-check switches on, the statement kinds
// of parser.Preview, and the string / integer constants the read/write-split
// decision compares with.

func init() { register(extractC06) }

func rwParse(repo, rel string) (*ast.File, error) {
	fset := token.NewFileSet()
	f, err := parser.ParseFile(fset, filepath.Join(repo, rel), nil, 0)
	if err != nil {
		return nil, fmt.Errorf("%s: %v", rel, err)
	}
	return f, nil
}

// value specs of the top-level const/var declarations of a file, by name
func rwValueSpecs(f *ast.File) map[string]ast.Expr {
	out := map[string]ast.Expr{}
	for _, d := range f.Decls {
		gd, ok := d.(*ast.GenDecl)
		if !ok || (gd.Tok != token.CONST && gd.Tok != token.VAR) {
			continue
		}
		for _, s := range gd.Specs {
			vs := s.(*ast.ValueSpec)
			for i, n := range vs.Names {
				if i < len(vs.Values) {
					out[n.Name] = vs.Values[i]
				}
			}
		}
	}
	return out
}

// position of a name in the const block that starts with `first = iota`
func rwIota(f *ast.File, first string) (map[string]int, error) {
	for _, d := range f.Decls {
		gd, ok := d.(*ast.GenDecl)
		if !ok || gd.Tok != token.CONST || len(gd.Specs) == 0 {
			continue
		}
		vs0 := gd.Specs[0].(*ast.ValueSpec)
		if len(vs0.Names) != 1 || vs0.Names[0].Name != first || len(vs0.Values) != 1 {
			continue
		}
		if id, ok := vs0.Values[0].(*ast.Ident); !ok || id.Name != "iota" {
			continue
		}
		out := map[string]int{}
		for i, s := range gd.Specs {
			vs := s.(*ast.ValueSpec)
			if len(vs.Names) != 1 || (i > 0 && len(vs.Values) != 0) {
				return nil, fmt.Errorf("const block of %s is not a plain iota enumeration", first)
			}
			out[vs.Names[0].Name] = i
		}
		return out, nil
	}
	return nil, fmt.Errorf("const block starting with %s = iota not found", first)
}

func rwString(e ast.Expr) (string, bool) {
	bl, ok := e.(*ast.BasicLit)
	if !ok || bl.Kind != token.STRING {
		return "", false
	}
	s, err := strconv.Unquote(bl.Value)
	return s, err == nil
}

func rwLeanString(s string) string { return strconv.Quote(s) }

func rwLeanChar(r rune) string {
	switch r {
	case '\t':
		return `'\t'`
	case '\n':
		return `'\n'`
	case '\r':
		return `'\r'`
	case '\'':
		return `'\''`
	case '\\':
		return `'\\'`
	}
	return "'" + string(r) + "'"
}

func extractC06(repo string) ([]fact, error) {
	var facts []fact

	// --- parser/analyzer.go: IsSqlSep and the Stmt kinds
	pf, err := rwParse(repo, "parser/analyzer.go")
	if err != nil {
		return nil, err
	}
	var seps []string
	found := false
	for _, d := range pf.Decls {
		fd, ok := d.(*ast.FuncDecl)
		if !ok || fd.Name.Name != "IsSqlSep" || fd.Body == nil {
			continue
		}
		found = true
		if len(fd.Body.List) != 1 {
			return nil, fmt.Errorf("IsSqlSep: expected a single return statement")
		}
		ret, ok := fd.Body.List[0].(*ast.ReturnStmt)
		if !ok || len(ret.Results) != 1 {
			return nil, fmt.Errorf("IsSqlSep: expected `return r == … || …`")
		}
		var walk func(e ast.Expr) error
		walk = func(e ast.Expr) error {
			be, ok := e.(*ast.BinaryExpr)
			if !ok {
				return fmt.Errorf("IsSqlSep: unexpected expression")
			}
			switch be.Op {
			case token.LOR:
				if err := walk(be.X); err != nil {
					return err
				}
				return walk(be.Y)
			case token.EQL:
				id, ok1 := be.X.(*ast.Ident)
				lit, ok2 := be.Y.(*ast.BasicLit)
				if !ok1 || !ok2 || id.Name != "r" || lit.Kind != token.CHAR {
					return fmt.Errorf("IsSqlSep: expected r == 'c'")
				}
				c, _, _, err := strconv.UnquoteChar(lit.Value[1:len(lit.Value)-1], '\'')
				if err != nil {
					return err
				}
				seps = append(seps, rwLeanChar(c))
				return nil
			}
			return fmt.Errorf("IsSqlSep: unexpected operator %s", be.Op)
		}
		if err := walk(ret.Results[0]); err != nil {
			return nil, err
		}
	}
	if !found {
		return nil, fmt.Errorf("parser.IsSqlSep not found")
	}
	facts = append(facts, fact{"c06_sqlSeps", "List Char", "[" + strings.Join(seps, ", ") + "]", "the characters parser.IsSqlSep accepts, in source order"})

	kinds, err := rwIota(pf, "StmtSelect")
	if err != nil {
		return nil, err
	}
	for _, k := range []string{"StmtSelect", "StmtInsert", "StmtReplace", "StmtUpdate", "StmtDelete", "StmtShow", "StmtComment"} {
		v, ok := kinds[k]
		if !ok {
			return nil, fmt.Errorf("parser.%s not found", k)
		}
		facts = append(facts, fact{"c06_" + k, "Nat", strconv.Itoa(v), "parser." + k})
	}
	// canHandleWithoutPlan of proxy/server/executor.go: the statement kinds it lists
	ef, err := rwParse(repo, "proxy/server/executor.go")
	if err != nil {
		return nil, err
	}
	var without []string
	found = false
	for _, d := range ef.Decls {
		fd, ok := d.(*ast.FuncDecl)
		if !ok || fd.Name.Name != "canHandleWithoutPlan" || fd.Body == nil {
			continue
		}
		found = true
		ast.Inspect(fd.Body, func(n ast.Node) bool {
			if se, ok := n.(*ast.SelectorExpr); ok {
				if x, ok := se.X.(*ast.Ident); ok && x.Name == "parser" {
					if v, ok := kinds[se.Sel.Name]; ok {
						without = append(without, strconv.Itoa(v))
					}
				}
			}
			return true
		})
	}
	if !found || len(without) == 0 {
		return nil, fmt.Errorf("canHandleWithoutPlan not found")
	}
	facts = append(facts, fact{"c22_withoutPlanKinds", "List Nat", "[" + strings.Join(without, ", ") + "]", "statement kinds of canHandleWithoutPlan, in source order"})

	evals := rwValueSpecs(ef)
	for lean, name := range map[string]string{"c06_lastInsetIdMark": "lastInsetIdMark", "c22_masterHint": "masterHint",
		"c22_readonlyVariable": "readonlyVariable", "c22_globalReadonlyVariable": "globalReadonlyVariable"} {
		e, ok := evals[name]
		if !ok {
			return nil, fmt.Errorf("proxy/server/executor.go: constant %s not found", name)
		}
		s, ok := rwString(e)
		if !ok {
			return nil, fmt.Errorf("proxy/server/executor.go: %s is not a string literal", name)
		}
		facts = append(facts, fact{lean, "String", rwLeanString(s), "proxy/server/executor.go: " + name})
	}

	// --- mysql/constants.go: ParseTokenMap and ParseTokenIdStrMap
	mf, err := rwParse(repo, "mysql/constants.go")
	if err != nil {
		return nil, err
	}
	mvals := rwValueSpecs(mf)
	tokenMap, ok := mvals["ParseTokenMap"].(*ast.CompositeLit)
	if !ok {
		return nil, fmt.Errorf("mysql.ParseTokenMap not found")
	}
	idStr, ok := mvals["ParseTokenIdStrMap"].(*ast.CompositeLit)
	if !ok {
		return nil, fmt.Errorf("mysql.ParseTokenIdStrMap not found")
	}
	idOf := map[string]string{}
	var keys []string
	for _, el := range tokenMap.Elts {
		kv, ok := el.(*ast.KeyValueExpr)
		if !ok {
			return nil, fmt.Errorf("ParseTokenMap: unexpected element")
		}
		k, ok1 := rwString(kv.Key)
		id, ok2 := kv.Value.(*ast.Ident)
		if !ok1 || !ok2 {
			return nil, fmt.Errorf("ParseTokenMap: unexpected element")
		}
		keys = append(keys, rwLeanString(k))
		idOf[k] = id.Name
	}
	strOf := map[string]string{}
	for _, el := range idStr.Elts {
		kv, ok := el.(*ast.KeyValueExpr)
		if !ok {
			return nil, fmt.Errorf("ParseTokenIdStrMap: unexpected element")
		}
		id, ok1 := kv.Key.(*ast.Ident)
		v, ok2 := kv.Value.(*ast.Ident)
		if !ok1 || !ok2 {
			return nil, fmt.Errorf("ParseTokenIdStrMap: unexpected element")
		}
		s, ok := rwString(mvals[v.Name])
		if !ok {
			return nil, fmt.Errorf("mysql.%s is not a string constant", v.Name)
		}
		strOf[id.Name] = s
	}
	facts = append(facts, fact{"c06_parseTokenKeys", "List String", "[" + strings.Join(keys, ", ") + "]", "keys of mysql.ParseTokenMap, in source order"})
	var nb []string
	for _, kw := range []string{"select", "delete", "insert", "replace", "update"} {
		id, ok := idOf[kw]
		if !ok {
			return nil, fmt.Errorf("ParseTokenMap has no key %q", kw)
		}
		s, ok := strOf[id]
		if !ok {
			return nil, fmt.Errorf("ParseTokenIdStrMap has no entry for %s", id)
		}
		nb = append(nb, "("+rwLeanString(kw)+", "+rwLeanString(s)+")")
	}
	facts = append(facts, fact{"c06_tokenNeighbour", "List (String × String)", "[" + strings.Join(nb, ", ") + "]",
		"for the statement keywords preBuildUnshardPlan switches on: mysql.ParseTokenIdStrMap[mysql.ParseTokenMap[keyword]]"})

	// --- models/user.go
	uf, err := rwParse(repo, "models/user.go")
	if err != nil {
		return nil, err
	}
	uvals := rwValueSpecs(uf)
	for _, name := range []string{"ReadOnly", "ReadWrite", "ReadWriteSplit"} {
		bl, ok := uvals[name].(*ast.BasicLit)
		if !ok || bl.Kind != token.INT {
			return nil, fmt.Errorf("models.%s is not an integer literal", name)
		}
		facts = append(facts, fact{"c22_" + name, "Nat", bl.Value, "models." + name})
	}
	return facts, nil
}
