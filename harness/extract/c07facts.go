package extract

import (
	"crypto/sha256"
	"encoding/hex"
	"encoding/json"
	"fmt"
	"io"
	"os"
	"path/filepath"
	"sort"
	"strings"
	"time"
)

// C07: the facts of the typed translator (c07ssa.go) as Lean definitions.
//
//	c07Effects      every (function, kind, target) where planning may write shared memory
//	c07AliasGetters the methods of the router / rules / namespace that hand out internal slices or maps
//	c07PlanEntries  the entry points the analysis started from
//
// The analysis loads and type-checks the packages below proxy/server (about ten seconds);
// its result is cached under harness/bin, keyed by a hash of every non-test Go file of the
// repository, go.mod, go.sum and the analyser's own version.

const c07AnalysisVersion = "c07ssa-5"

func c07SourceHash(repo string) (string, error) {
	h := sha256.New()
	io.WriteString(h, c07AnalysisVersion)
	var files []string
	err := filepath.Walk(repo, func(path string, info os.FileInfo, err error) error {
		if err != nil {
			return err
		}
		if info.IsDir() {
			n := info.Name()
			if path != repo && (strings.HasPrefix(n, ".") || n == "vendor" || n == "testdata" || n == "docs" || n == "tests") {
				return filepath.SkipDir
			}
			return nil
		}
		n := info.Name()
		if (strings.HasSuffix(n, ".go") && !strings.HasSuffix(n, "_test.go")) || n == "go.mod" || n == "go.sum" {
			files = append(files, path)
		}
		return nil
	})
	if err != nil {
		return "", err
	}
	sort.Strings(files)
	for _, f := range files {
		data, err := os.ReadFile(f)
		if err != nil {
			return "", err
		}
		rel, _ := filepath.Rel(repo, f)
		fmt.Fprintf(h, "\x00%s\x00%d\x00", rel, len(data))
		h.Write(data)
	}
	return hex.EncodeToString(h.Sum(nil))[:24], nil
}

func c07CacheDir() string {
	if exe, err := os.Executable(); err == nil {
		d := filepath.Dir(exe)
		if filepath.Base(d) == "bin" {
			return d
		}
	}
	return ""
}

func c07Cached(repo string) (*c07Result, error) {
	key, err := c07SourceHash(repo)
	if err != nil {
		return nil, err
	}
	dir := c07CacheDir()
	path := ""
	if dir != "" {
		path = filepath.Join(dir, "c07ssa."+key+".json")
		if data, err := os.ReadFile(path); err == nil {
			var r c07Result
			if json.Unmarshal(data, &r) == nil && r.Reachable > 0 {
				now := time.Now()
				os.Chtimes(path, now, now)
				return &r, nil
			}
		}
	}
	r, err := c07Analyse(repo)
	if err != nil {
		return nil, err
	}
	if path != "" {
		if data, err := json.Marshal(r); err == nil {
			tmp := fmt.Sprintf("%s.%d", path, os.Getpid())
			if os.WriteFile(tmp, data, 0o644) == nil {
				os.Rename(tmp, path)
			}
		}
		// keep the few most recent results only
		if old, _ := filepath.Glob(filepath.Join(dir, "c07ssa.*.json")); len(old) > 6 {
			sort.Slice(old, func(i, j int) bool {
				a, _ := os.Stat(old[i])
				b, _ := os.Stat(old[j])
				return a != nil && b != nil && a.ModTime().After(b.ModTime())
			})
			for _, f := range old[6:] {
				os.Remove(f)
			}
		}
	}
	return r, nil
}

func c07LeanStr(s string) string { return fmt.Sprintf("%q", s) }

func init() {
	register(func(repo string) ([]fact, error) {
		r, err := c07Cached(repo)
		if err != nil {
			return nil, fmt.Errorf("c07 (typed translator): %v", err)
		}
		if r.Reachable < 200 {
			return nil, fmt.Errorf("c07 (typed translator): only %d functions reachable from the planning entry points", r.Reachable)
		}
		sawSub := false
		for _, g := range r.Getters {
			if strings.HasSuffix(g[0], ".GetSubTableIndexes") {
				sawSub = true
			}
		}
		if !sawSub {
			return nil, fmt.Errorf("c07 (typed translator): GetSubTableIndexes not found among the getters that hand out internal memory")
		}
		var eff, get, ent []string
		for _, e := range r.Effects {
			eff = append(eff, "("+c07LeanStr(e.Fn)+", "+c07LeanStr(e.Kind)+", "+c07LeanStr(e.Target)+")")
		}
		for _, g := range r.Getters {
			get = append(get, "("+c07LeanStr(g[0])+", "+c07LeanStr(g[1])+")")
		}
		for _, e := range r.Entries {
			ent = append(ent, c07LeanStr(e))
		}
		join := func(xs []string) string {
			if len(xs) == 0 {
				return "[]"
			}
			return "[\n  " + strings.Join(xs, ",\n  ") + "]"
		}
		return []fact{
			{name: "c07Effects", typ: "List (String × String × String)", val: join(eff),
				doc: "C07 (typed translator, go/ssa points-to analysis): (function, kind, target) for every instruction reachable from the planning entry points that may write memory shared by the sessions of a namespace (store / mapupdate / delete / append / copy / send), hand a shared pointer to code outside the module that is not known to only read (escape), lock or atomically update shared memory (sync), or call into a package that is not analysed and stands for a cell of its own (call: log, stats, sequence)"},
			{name: "c07AliasGetters", typ: "List (String × String)", val: join(get),
				doc: "C07: methods of the router, the rules and the namespace that return a slice or map that IS internal shared memory (no copy), with the memory they return"},
			{name: "c07PlanEntries", typ: "List String", val: join(ent),
				doc: "C07: entry points of the analysis"},
		}, nil
	})
}
