package extract

import (
	"fmt"
	"go/ast"
	"go/parser"
	"go/token"
	"path/filepath"
	"strconv"
	"strings"
)

// C10: constants of the shard-rule configuration that the model and its
// theorems depend on: the partition length of the Mycat long/string rules (both
// copies), the way the router masks a key into it, the padding-mod bounds and
// the rule-type names.

func init() { register(extractC10) }

// c10Consts returns the constant declarations `name = <expr>` of one Go file.
func c10Consts(path string) (map[string]ast.Expr, error) {
	fset := token.NewFileSet()
	f, err := parser.ParseFile(fset, path, nil, 0)
	if err != nil {
		return nil, err
	}
	out := map[string]ast.Expr{}
	for _, d := range f.Decls {
		gd, ok := d.(*ast.GenDecl)
		if !ok || gd.Tok != token.CONST {
			continue
		}
		for _, sp := range gd.Specs {
			vs := sp.(*ast.ValueSpec)
			for i, n := range vs.Names {
				if i < len(vs.Values) {
					out[n.Name] = vs.Values[i]
				}
			}
		}
	}
	return out, nil
}

func c10Int(consts map[string]ast.Expr, name, file string) (int64, error) {
	e, ok := consts[name]
	if !ok {
		return 0, fmt.Errorf("C10: constant %s not found in %s", name, file)
	}
	lit, ok := e.(*ast.BasicLit)
	if !ok || lit.Kind != token.INT {
		return 0, fmt.Errorf("C10: constant %s in %s is not an integer literal", name, file)
	}
	return strconv.ParseInt(lit.Value, 0, 64)
}

func c10Str(consts map[string]ast.Expr, name, file string) (string, error) {
	e, ok := consts[name]
	if !ok {
		return "", fmt.Errorf("C10: constant %s not found in %s", name, file)
	}
	lit, ok := e.(*ast.BasicLit)
	if !ok || lit.Kind != token.STRING {
		return "", fmt.Errorf("C10: constant %s in %s is not a string literal", name, file)
	}
	return strconv.Unquote(lit.Value)
}

func c10Chars(s string) string {
	var cs []string
	for _, r := range s {
		if r == '\'' || r == '\\' || r > 126 || r < 32 {
			cs = append(cs, fmt.Sprintf("Char.ofNat %d", r))
		} else {
			cs = append(cs, "'"+string(r)+"'")
		}
	}
	return "[" + strings.Join(cs, ", ") + "]"
}

func extractC10(repo string) ([]fact, error) {
	var facts []fact
	mfile := filepath.Join(repo, "models", "shard.go")
	rfile := filepath.Join(repo, "proxy", "router", "shard_mycat.go")
	mc, err := c10Consts(mfile)
	if err != nil {
		return nil, err
	}
	rc, err := c10Consts(rfile)
	if err != nil {
		return nil, err
	}
	for _, src := range []struct {
		pre, file string
		c         map[string]ast.Expr
	}{{"c10Models", mfile, mc}, {"c10Router", rfile, rc}} {
		for _, name := range []string{"PartitionLength", "PaddingModLeftEnd", "PaddingModRightEnd", "PaddingModDefaultMod"} {
			v, err := c10Int(src.c, name, src.file)
			if err != nil {
				return nil, err
			}
			facts = append(facts, fact{name: src.pre + name, typ: "Int", val: strconv.FormatInt(v, 10), doc: name + " of " + strings.TrimPrefix(src.file, repo+"/")})
		}
	}
	// andValue = PartitionLength - 1 (the mask of MycatPartitionLongShard.FindForKey)
	av, ok := rc["andValue"]
	if !ok {
		return nil, fmt.Errorf("C10: constant andValue not found in %s", rfile)
	}
	be, ok := av.(*ast.BinaryExpr)
	isMinus1 := false
	if ok && be.Op == token.SUB {
		x, okx := be.X.(*ast.Ident)
		y, oky := be.Y.(*ast.BasicLit)
		isMinus1 = okx && oky && x.Name == "PartitionLength" && y.Value == "1"
	}
	if !isMinus1 {
		return nil, fmt.Errorf("C10: andValue in %s is no longer PartitionLength - 1", rfile)
	}
	facts = append(facts, fact{name: "c10RouterAndValueIsPartitionLengthMinus1", typ: "Bool", val: "true", doc: "andValue = PartitionLength - 1 in proxy/router/shard_mycat.go"})
	// rule type names
	for _, tn := range [][2]string{{"ShardDefault", "Default"}, {"ShardGlobal", "Global"}, {"ShardLinked", "Linked"}, {"ShardMod", "Mod"}, {"ShardHash", "Hash"},
		{"ShardRange", "Range"}, {"ShardYear", "Year"}, {"ShardMonth", "Month"}, {"ShardDay", "Day"}, {"ShardMycatMod", "MycatMod"}, {"ShardMycatLong", "MycatLong"},
		{"ShardMycatString", "MycatString"}, {"ShardMycatMURMUR", "MycatMurmur"}, {"ShardMycatPaddingMod", "MycatPadding"}} {
		v, err := c10Str(mc, tn[0], mfile)
		if err != nil {
			return nil, err
		}
		facts = append(facts, fact{name: "c10Type" + tn[1], typ: "List Char", val: c10Chars(v), doc: tn[0] + " of models/shard.go"})
	}
	return facts, nil
}
