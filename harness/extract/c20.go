package extract

import (
	"fmt"
	"go/ast"
	"go/parser"
	"go/token"
	"path/filepath"
	"strconv"
	"strings"
)

// C20: the charset/collation tables of mysql/charset.go that SetCharset and
// the SET NAMES handling consult, the verify-function table of
// mysql/variables.go that SessionVariables.Set consults.

func init() { register(extractC20) }

func c20LeanStr(s string) string {
	return "\"" + strings.NewReplacer("\\", "\\\\", "\"", "\\\"").Replace(s) + "\""
}

// c20MapLiteral returns the key/value expressions of `var <name> = map[..]..{…}`.
func c20MapLiteral(f *ast.File, name string) ([]*ast.KeyValueExpr, error) {
	for _, d := range f.Decls {
		gd, ok := d.(*ast.GenDecl)
		if !ok || gd.Tok != token.VAR {
			continue
		}
		for _, sp := range gd.Specs {
			vs := sp.(*ast.ValueSpec)
			for i, n := range vs.Names {
				if n.Name != name || i >= len(vs.Values) {
					continue
				}
				cl, ok := vs.Values[i].(*ast.CompositeLit)
				if !ok {
					return nil, fmt.Errorf("C20: %s is not a composite literal", name)
				}
				var kvs []*ast.KeyValueExpr
				for _, e := range cl.Elts {
					kv, ok := e.(*ast.KeyValueExpr)
					if !ok {
						return nil, fmt.Errorf("C20: %s has a non key/value element", name)
					}
					kvs = append(kvs, kv)
				}
				return kvs, nil
			}
		}
	}
	return nil, fmt.Errorf("C20: map literal %s not found", name)
}

func c20Lit(e ast.Expr, consts map[string]string) (string, bool, error) {
	switch x := e.(type) {
	case *ast.BasicLit:
		switch x.Kind {
		case token.STRING:
			s, err := strconv.Unquote(x.Value)
			return s, true, err
		case token.INT:
			return x.Value, false, nil
		}
	case *ast.Ident:
		if v, ok := consts[x.Name]; ok {
			return v, true, nil
		}
		return x.Name, true, nil
	}
	return "", false, fmt.Errorf("C20: unsupported literal")
}

func c20Table(f *ast.File, name string, consts map[string]string) (string, int, error) {
	kvs, err := c20MapLiteral(f, name)
	if err != nil {
		return "", 0, err
	}
	var parts []string
	for _, kv := range kvs {
		k, ks, err := c20Lit(kv.Key, consts)
		if err != nil {
			return "", 0, fmt.Errorf("%v in %s", err, name)
		}
		v, vs, err := c20Lit(kv.Value, consts)
		if err != nil {
			return "", 0, fmt.Errorf("%v in %s", err, name)
		}
		if ks {
			k = c20LeanStr(k)
		}
		if vs {
			v = c20LeanStr(v)
		}
		parts = append(parts, "("+k+", "+v+")")
	}
	return "[" + strings.Join(parts, ", ") + "]", len(parts), nil
}

func extractC20(repo string) ([]fact, error) {
	fset := token.NewFileSet()
	cf, err := parser.ParseFile(fset, filepath.Join(repo, "mysql", "charset.go"), nil, 0)
	if err != nil {
		return nil, fmt.Errorf("C20: %v", err)
	}
	var facts []fact
	for _, t := range []struct{ goName, leanName, typ string }{
		{"CharsetIds", "c20CharsetIds", "List (String × Nat)"},
		{"Charsets", "c20Charsets", "List (String × String)"},
		{"Collations", "c20Collations", "List (Nat × String)"},
		{"CollationNames", "c20CollationNames", "List (String × Nat)"},
		{"CollationNameToCharset", "c20CollationNameToCharset", "List (String × String)"},
	} {
		val, n, err := c20Table(cf, t.goName, nil)
		if err != nil {
			return nil, err
		}
		if n == 0 {
			return nil, fmt.Errorf("C20: table %s is empty", t.goName)
		}
		facts = append(facts, fact{name: t.leanName, typ: t.typ, val: val, doc: "mysql/charset.go: " + t.goName})
	}
	vf, err := parser.ParseFile(fset, filepath.Join(repo, "mysql", "variables.go"), nil, 0)
	if err != nil {
		return nil, fmt.Errorf("C20: %v", err)
	}
	// string constants of variables.go (the allowed variable names)
	consts := map[string]string{}
	for _, d := range vf.Decls {
		gd, ok := d.(*ast.GenDecl)
		if !ok || gd.Tok != token.CONST {
			continue
		}
		for _, sp := range gd.Specs {
			vs := sp.(*ast.ValueSpec)
			for i, n := range vs.Names {
				if i < len(vs.Values) {
					if bl, ok := vs.Values[i].(*ast.BasicLit); ok && bl.Kind == token.STRING {
						s, _ := strconv.Unquote(bl.Value)
						consts[n.Name] = s
					}
				}
			}
		}
	}
	val, n, err := c20Table(vf, "variableVerifyFuncMap", consts)
	if err != nil {
		return nil, err
	}
	if n == 0 {
		return nil, fmt.Errorf("C20: variableVerifyFuncMap is empty")
	}
	facts = append(facts, fact{name: "c20VerifyFuncMap", typ: "List (String × String)", val: val, doc: "mysql/variables.go: variableVerifyFuncMap (name, verify function)"})
	return facts, nil
}
