package extract

import (
	"fmt"
	"go/ast"
	"go/parser"
	"go/token"
	"os"
	"path/filepath"
	"regexp"
	"sort"
	"strings"
)

// C07: the list of writes to routing state shared between sessions.
//
// The routing state of a namespace (Router, the rules, their shards) is built
// once by NewRouter and then shared by every session. All fields of the
// router types but a few are unexported, so they can only be written inside
// package proxy/router; exported fields could also be written from the
// planner. The fact extracted here is the list of
//   - assignments, op-assignments, ++/--, map stores and deletes whose target
//     is a field / element reached through a selector or index expression, in
//     every function of proxy/router that is not a load-time function
//     (constructors and parsers called by NewRouter only), and
//   - the same statements in proxy/plan and proxy/server whose target names an
//     exported field of a struct declared in proxy/router.
// The theorem C07.shared_state_never_written requires the list to be empty.

var c07LoadTime = regexp.MustCompile(`^(New|new|parse|Parse|create|Init$|SetWeightMapFromFile$|generateBucketMap$|checkParam$|toIntArray$|GetRealDatabases$|getRealDatabases$|GetMycatPartitionPaddingModShard$|includeSlice$)`)

func c07ParseDir(fset *token.FileSet, dir string) ([]*ast.File, error) {
	ents, err := os.ReadDir(dir)
	if err != nil {
		return nil, err
	}
	var files []*ast.File
	for _, e := range ents {
		n := e.Name()
		if !strings.HasSuffix(n, ".go") || strings.HasSuffix(n, "_test.go") || strings.HasPrefix(n, "verif_") {
			continue
		}
		f, err := parser.ParseFile(fset, filepath.Join(dir, n), nil, 0)
		if err != nil {
			return nil, err
		}
		files = append(files, f)
	}
	if len(files) == 0 {
		return nil, fmt.Errorf("no Go files in %s", dir)
	}
	return files, nil
}

func c07Expr(fset *token.FileSet, e ast.Expr) string {
	switch x := e.(type) {
	case *ast.Ident:
		return x.Name
	case *ast.SelectorExpr:
		return c07Expr(fset, x.X) + "." + x.Sel.Name
	case *ast.IndexExpr:
		return c07Expr(fset, x.X) + "[…]"
	case *ast.StarExpr:
		return "*" + c07Expr(fset, x.X)
	case *ast.ParenExpr:
		return "(" + c07Expr(fset, x.X) + ")"
	case *ast.TypeAssertExpr:
		return c07Expr(fset, x.X) + ".(T)"
	case *ast.CallExpr:
		return c07Expr(fset, x.Fun) + "()"
	}
	return "?"
}

// a write target that goes through a field or an element (not a plain local variable)
func c07IsFieldOrElem(e ast.Expr) bool {
	switch x := e.(type) {
	case *ast.SelectorExpr, *ast.IndexExpr:
		return true
	case *ast.ParenExpr:
		return c07IsFieldOrElem(x.X)
	case *ast.StarExpr:
		return c07IsFieldOrElem(x.X)
	}
	return false
}

func c07LastField(e ast.Expr) string {
	switch x := e.(type) {
	case *ast.SelectorExpr:
		return x.Sel.Name
	case *ast.IndexExpr:
		return c07LastField(x.X)
	case *ast.ParenExpr:
		return c07LastField(x.X)
	case *ast.StarExpr:
		return c07LastField(x.X)
	}
	return ""
}

func c07Writes(fset *token.FileSet, body *ast.BlockStmt, keep func(lhs ast.Expr) bool) []string {
	var out []string
	if body == nil {
		return nil
	}
	ast.Inspect(body, func(n ast.Node) bool {
		switch s := n.(type) {
		case *ast.AssignStmt:
			if s.Tok == token.DEFINE {
				return true
			}
			for _, l := range s.Lhs {
				if keep(l) {
					out = append(out, c07Expr(fset, l)+" "+s.Tok.String())
				}
			}
		case *ast.IncDecStmt:
			if keep(s.X) {
				out = append(out, c07Expr(fset, s.X)+" "+s.Tok.String())
			}
		case *ast.CallExpr:
			if id, ok := s.Fun.(*ast.Ident); ok && id.Name == "delete" && len(s.Args) > 0 && keep(s.Args[0]) {
				out = append(out, "delete("+c07Expr(fset, s.Args[0])+")")
			}
		}
		return true
	})
	return out
}

func init() {
	register(func(repo string) ([]fact, error) {
		fset := token.NewFileSet()
		routerFiles, err := c07ParseDir(fset, filepath.Join(repo, "proxy", "router"))
		if err != nil {
			return nil, err
		}
		// exported fields of struct types declared in proxy/router
		exported := map[string]bool{}
		nStructs := 0
		for _, f := range routerFiles {
			ast.Inspect(f, func(n ast.Node) bool {
				ts, ok := n.(*ast.TypeSpec)
				if !ok {
					return true
				}
				st, ok := ts.Type.(*ast.StructType)
				if !ok {
					return true
				}
				nStructs++
				for _, fl := range st.Fields.List {
					for _, nm := range fl.Names {
						if nm.IsExported() {
							exported[nm.Name] = true
						}
					}
				}
				return true
			})
		}
		if nStructs < 5 {
			return nil, fmt.Errorf("c07: expected the router struct types in proxy/router, found %d", nStructs)
		}
		var writes []string
		sawGetRule := false
		for _, f := range routerFiles {
			for _, d := range f.Decls {
				fd, ok := d.(*ast.FuncDecl)
				if !ok {
					continue
				}
				if fd.Name.Name == "GetRule" {
					sawGetRule = true
				}
				if c07LoadTime.MatchString(fd.Name.Name) {
					continue
				}
				for _, w := range c07Writes(fset, fd.Body, c07IsFieldOrElem) {
					writes = append(writes, "proxy/router:"+fd.Name.Name+": "+w)
				}
			}
		}
		if !sawGetRule {
			return nil, fmt.Errorf("c07: Router.GetRule not found in proxy/router")
		}
		for _, pkg := range []string{"plan", "server"} {
			files, err := c07ParseDir(fset, filepath.Join(repo, "proxy", pkg))
			if err != nil {
				return nil, err
			}
			for _, f := range files {
				for _, d := range f.Decls {
					fd, ok := d.(*ast.FuncDecl)
					if !ok {
						continue
					}
					for _, w := range c07Writes(fset, fd.Body, func(l ast.Expr) bool {
						return c07IsFieldOrElem(l) && exported[c07LastField(l)]
					}) {
						writes = append(writes, "proxy/"+pkg+":"+fd.Name.Name+": "+w)
					}
				}
			}
		}
		sort.Strings(writes)
		var q []string
		for _, w := range writes {
			q = append(q, fmt.Sprintf("%q", w))
		}
		return []fact{{
			name: "c07SharedWrites", typ: "List String", val: "[" + strings.Join(q, ", ") + "]",
			doc: "C07: writes through fields/elements in the non-load-time functions of proxy/router, and writes to exported router-struct fields in proxy/plan and proxy/server",
		}}, nil
	})
}
