package extract

import (
	"fmt"
	"go/ast"
	"go/parser"
	"go/token"
	"path/filepath"
	"strconv"
	"strings"
)

// C17: the rule table of the scanner (parser/misc.go init: which characters
// are single-character tokens, which strings are multi-character operators,
// which characters start a scanning function), the end token eofChar, and the
// shape of the multi-statement loop of doMultiStmts.

func init() { register(extractC17) }

func extractC17(repo string) ([]fact, error) {
	fset := token.NewFileSet()
	mf, err := parser.ParseFile(fset, filepath.Join(repo, "parser", "misc.go"), nil, 0)
	if err != nil {
		return nil, err
	}
	var initFn *ast.FuncDecl
	for _, d := range mf.Decls {
		if fd, ok := d.(*ast.FuncDecl); ok && fd.Name.Name == "init" && fd.Recv == nil {
			ast.Inspect(fd.Body, func(n ast.Node) bool {
				if c, ok := n.(*ast.CallExpr); ok {
					if id, ok := c.Fun.(*ast.Ident); ok && id.Name == "initTokenByte" {
						initFn = fd
					}
				}
				return true
			})
		}
	}
	if initFn == nil {
		return nil, fmt.Errorf("C17: the init function that fills ruleTable was not found in parser/misc.go")
	}
	var bytes_, strs, funcs []string
	for _, st := range initFn.Body.List {
		es, ok := st.(*ast.ExprStmt)
		if !ok {
			continue
		}
		c, ok := es.X.(*ast.CallExpr)
		if !ok {
			continue
		}
		id, ok := c.Fun.(*ast.Ident)
		if !ok || len(c.Args) != 2 {
			continue
		}
		lit, ok := c.Args[0].(*ast.BasicLit)
		if !ok {
			return nil, fmt.Errorf("C17: non-literal first argument of %s", id.Name)
		}
		switch id.Name {
		case "initTokenByte":
			v, _, _, err := strconv.UnquoteChar(strings.Trim(lit.Value, "'"), '\'')
			if err != nil {
				return nil, err
			}
			bytes_ = append(bytes_, strconv.Itoa(int(v)))
		case "initTokenString":
			s, err := strconv.Unquote(lit.Value)
			if err != nil {
				return nil, err
			}
			strs = append(strs, c21Runes(s))
		case "initTokenFunc":
			s, err := strconv.Unquote(lit.Value)
			if err != nil {
				return nil, err
			}
			funcs = append(funcs, fmt.Sprintf("(%s, %q)", c21Runes(s), c21ExprString(c.Args[1])))
		}
	}
	if len(bytes_) == 0 || len(strs) == 0 || len(funcs) == 0 {
		return nil, fmt.Errorf("C17: ruleTable initialisation not recognised")
	}
	facts := []fact{
		{"c17TokenBytes", "List Nat", "[" + strings.Join(bytes_, ", ") + "]", "initTokenByte characters of the scanner's rule table"},
		{"c17TokenStrings", "List (List Nat)", "[" + strings.Join(strs, ", ") + "]", "initTokenString operators of the scanner's rule table"},
		{"c17TokenFuncs", "List (List Nat × String)", "[" + strings.Join(funcs, ", ") + "]", "initTokenFunc: first characters and the scanning function they start"},
	}
	af, err := parser.ParseFile(fset, filepath.Join(repo, "parser", "analyzer.go"), nil, 0)
	if err != nil {
		return nil, err
	}
	found := false
	for _, d := range af.Decls {
		gd, ok := d.(*ast.GenDecl)
		if !ok || gd.Tok != token.CONST {
			continue
		}
		for _, s := range gd.Specs {
			vs := s.(*ast.ValueSpec)
			if vs.Names[0].Name == "eofChar" && len(vs.Values) == 1 {
				v, err := strconv.ParseInt(c21ExprString(vs.Values[0]), 0, 64)
				if err != nil {
					return nil, err
				}
				facts = append(facts, fact{"c17EofChar", "Nat", strconv.FormatInt(v, 10), "eofChar of parser/analyzer.go"})
				found = true
			}
		}
	}
	if !found {
		return nil, fmt.Errorf("C17: eofChar not found")
	}
	// the multi-statement loop: doQuery(piece), then return on error, as the first two statements after the fingerprint call
	hf, err := parser.ParseFile(fset, filepath.Join(repo, "proxy", "server", "executor_handle.go"), nil, 0)
	if err != nil {
		return nil, err
	}
	dm := c21FindFunc(hf, "doMultiStmts")
	if dm == nil {
		return nil, fmt.Errorf("C17: doMultiStmts not found")
	}
	var loop *ast.RangeStmt
	for _, st := range dm.Body.List {
		if r, ok := st.(*ast.RangeStmt); ok {
			loop = r
		}
	}
	if loop == nil || c21ExprString(loop.X) != "piecesSql" {
		return nil, fmt.Errorf("C17: doMultiStmts has no loop over piecesSql")
	}
	ok := false
	for i, st := range loop.Body.List {
		as, isAs := st.(*ast.AssignStmt)
		if isAs && len(as.Rhs) == 1 && c21ExprString(as.Rhs[0]) == "se.doQuery(reqCtx,piece)" && i+1 < len(loop.Body.List) {
			if ifs, isIf := loop.Body.List[i+1].(*ast.IfStmt); isIf && c21ExprString(ifs.Cond) == "errRet!=nil" && len(ifs.Body.List) == 1 {
				if _, isRet := ifs.Body.List[0].(*ast.ReturnStmt); isRet {
					ok = true
				}
			}
		}
	}
	if !ok {
		return nil, fmt.Errorf("C17: the loop of doMultiStmts does not return right after a failing doQuery(piece)")
	}
	facts = append(facts, fact{"c17MultiLoopStopsOnError", "Bool", "true", "the loop of doMultiStmts returns right after a failing doQuery(reqCtx, piece)"})
	return facts, nil
}
