package extract

import (
	"fmt"
	"go/ast"
	"go/parser"
	"go/token"
	"path/filepath"
	"strconv"
)

// C25: the values of the local-read policies GetSlaveConn switches on
// (backend/slice.go). The model dispatches on the same numbers and theorem
// C25.policy_consts ties them, so renumbering the constants breaks the proof.
func init() {
	register(func(repo string) ([]fact, error) {
		path := filepath.Join(repo, "backend", "slice.go")
		fset := token.NewFileSet()
		f, err := parser.ParseFile(fset, path, nil, 0)
		if err != nil {
			return nil, fmt.Errorf("C25 extract: %v", err)
		}
		want := map[string]string{
			"LocalSlaveReadClosed": "c25LocalSlaveReadClosed",
			"LocalSlaveReadPrefer": "c25LocalSlaveReadPrefer",
			"LocalSlaveReadForce":  "c25LocalSlaveReadForce",
		}
		found := map[string]int64{}
		for _, d := range f.Decls {
			gd, ok := d.(*ast.GenDecl)
			if !ok || gd.Tok != token.CONST {
				continue
			}
			for _, sp := range gd.Specs {
				vs := sp.(*ast.ValueSpec)
				for i, name := range vs.Names {
					if _, ok := want[name.Name]; !ok || i >= len(vs.Values) {
						continue
					}
					lit, ok := vs.Values[i].(*ast.BasicLit)
					if !ok || lit.Kind != token.INT {
						return nil, fmt.Errorf("C25 extract: %s is not an integer literal in %s", name.Name, path)
					}
					n, err := strconv.ParseInt(lit.Value, 0, 64)
					if err != nil {
						return nil, fmt.Errorf("C25 extract: %s: %v", name.Name, err)
					}
					found[name.Name] = n
				}
			}
		}
		var out []fact
		for goName, leanName := range want {
			n, ok := found[goName]
			if !ok {
				return nil, fmt.Errorf("C25 extract: constant %s not found in %s", goName, path)
			}
			out = append(out, fact{name: leanName, typ: "Int", val: strconv.FormatInt(n, 10),
				doc: "backend/slice.go const " + goName})
		}
		return out, nil
	})
}
