package extract

import (
	"fmt"
	"go/ast"
	"go/token"
	"path/filepath"
	"sort"
	"strconv"
	"strings"
)

// C38: structural facts about the goroutines that handle client bytes.
//
//   c38Roots            every `go` statement of the session path (proxy/server: server.go,
//                       session.go, client_conn.go, executor*.go) with how a panic in the new
//                       goroutine is stopped: "recover" (the function started has a deferred
//                       recover() among its top-level statements), "delegated" (a function
//                       literal that only calls builtins, sync.WaitGroup methods and functions of
//                       the package that themselves have a deferred recover()), or "none: …"
//   c38OnConnRecovers   Server.onConn has a deferred recover()
//   c38RunRecovers      Session.Run has a deferred recover()
//   c38HandleQueryRecovers  SessionExecutor.handleQuery has a deferred recover()
//   c38ExitCalls        calls of os.Exit / syscall.Exit / log.Fatal*/log.Panic* of the standard
//                       library in the non-test sources of proxy/server, mysql, backend, util, log
//   c38SharedWrites     writes to package-level variables in the decoders the model covers
//   c38DateGuard / c38ResetEarly / c38HashLenGuard   the shape of three places that other
//                       properties' fix commits are changing (see Model/Crash.lean, Variant)
//   c38Com…, c38Client… the command bytes and capability bits the model hard-codes

// has a top-level `defer func() { … recover() … }()`
func c38HasDeferredRecover(body *ast.BlockStmt) bool {
	if body == nil {
		return false
	}
	for _, st := range body.List {
		d, ok := st.(*ast.DeferStmt)
		if !ok {
			continue
		}
		lit, ok := d.Call.Fun.(*ast.FuncLit)
		if !ok {
			continue
		}
		found := false
		ast.Inspect(lit.Body, func(n ast.Node) bool {
			if c, ok := n.(*ast.CallExpr); ok {
				if id, ok := c.Fun.(*ast.Ident); ok && id.Name == "recover" && len(c.Args) == 0 {
					found = true
				}
			}
			return true
		})
		if found {
			return true
		}
	}
	return false
}

var c38Builtins = map[string]bool{"close": true, "len": true, "cap": true, "make": true, "append": true, "new": true, "copy": true, "delete": true}
var c38WaitGroupMethods = map[string]bool{"Done": true, "Wait": true, "Add": true}

func c38FuncName(fd *ast.FuncDecl) string {
	if fd.Recv != nil && len(fd.Recv.List) > 0 {
		t := fd.Recv.List[0].Type
		if s, ok := t.(*ast.StarExpr); ok {
			t = s.X
		}
		if id, ok := t.(*ast.Ident); ok {
			return id.Name + "." + fd.Name.Name
		}
	}
	return fd.Name.Name
}

// status of one goroutine root
func c38RootStatus(call *ast.CallExpr, funcs map[string][]*ast.FuncDecl) string {
	byName := func(name string) (bool, bool) { // (found, all have recover)
		fds := funcs[name]
		if len(fds) == 0 {
			return false, false
		}
		all := true
		for _, fd := range fds {
			if !c38HasDeferredRecover(fd.Body) {
				all = false
			}
		}
		return true, all
	}
	switch f := call.Fun.(type) {
	case *ast.FuncLit:
		if c38HasDeferredRecover(f.Body) {
			return "recover"
		}
		why := ""
		ast.Inspect(f.Body, func(n ast.Node) bool {
			if _, ok := n.(*ast.FuncLit); ok {
				return false
			}
			c, ok := n.(*ast.CallExpr)
			if !ok || why != "" {
				return true
			}
			switch fn := c.Fun.(type) {
			case *ast.Ident:
				if c38Builtins[fn.Name] {
					return true
				}
				if found, rec := byName(fn.Name); found && rec {
					return true
				}
				// a conversion or composite-literal-like call of a type name is harmless; a lower-case
				// identifier that is neither a builtin nor a recovering function is not
				why = "calls " + fn.Name
			case *ast.SelectorExpr:
				if c38WaitGroupMethods[fn.Sel.Name] {
					return true
				}
				if found, rec := byName(fn.Sel.Name); found && rec {
					return true
				}
				why = "calls " + fn.Sel.Name
			default:
				why = "calls a computed function"
			}
			return true
		})
		if why == "" {
			return "delegated"
		}
		return "none: " + why
	case *ast.Ident:
		if found, rec := byName(f.Name); found && rec {
			return "recover"
		}
		return "none: " + f.Name + " has no deferred recover"
	case *ast.SelectorExpr:
		if found, rec := byName(f.Sel.Name); found && rec {
			return "recover"
		}
		return "none: " + f.Sel.Name + " has no deferred recover"
	}
	return "none: computed function"
}

func c38Bool(b bool) string {
	if b {
		return "true"
	}
	return "false"
}

// value of an iota-style constant: position in its const block, with the
// first spec being `X <type> = iota` or `X <type> = 1 << iota`.
func c38IotaConst(files []*ast.File, name string) (uint64, error) {
	for _, f := range files {
		for _, d := range f.Decls {
			gd, ok := d.(*ast.GenDecl)
			if !ok || gd.Tok != token.CONST {
				continue
			}
			shift := false
			plain := false
			for i, sp := range gd.Specs {
				vs := sp.(*ast.ValueSpec)
				if i == 0 && len(vs.Values) == 1 {
					switch e := vs.Values[0].(type) {
					case *ast.Ident:
						plain = e.Name == "iota"
					case *ast.BinaryExpr:
						if l, ok := e.X.(*ast.BasicLit); ok && l.Value == "1" && e.Op == token.SHL {
							if r, ok := e.Y.(*ast.Ident); ok && r.Name == "iota" {
								shift = true
							}
						}
					}
				} else if len(vs.Values) != 0 && (plain || shift) {
					// an explicit value inside an iota block: not handled
					for _, n := range vs.Names {
						if n.Name == name {
							return 0, fmt.Errorf("c38: constant %s has an explicit value inside an iota block", name)
						}
					}
				}
				for _, n := range vs.Names {
					if n.Name != name {
						continue
					}
					if plain {
						return uint64(i), nil
					}
					if shift {
						return uint64(1) << uint(i), nil
					}
					if len(vs.Values) == 1 {
						if l, ok := vs.Values[0].(*ast.BasicLit); ok {
							v, err := strconv.ParseUint(l.Value, 0, 64)
							if err == nil {
								return v, nil
							}
						}
					}
					return 0, fmt.Errorf("c38: cannot evaluate constant %s", name)
				}
			}
		}
	}
	return 0, fmt.Errorf("c38: constant %s not found", name)
}

func c38FindFunc(files []*ast.File, name string) *ast.FuncDecl {
	for _, f := range files {
		for _, d := range f.Decls {
			if fd, ok := d.(*ast.FuncDecl); ok && c38FuncName(fd) == name {
				return fd
			}
		}
	}
	return nil
}

func c38MentionsIdent(e ast.Expr, name string) bool {
	found := false
	ast.Inspect(e, func(n ast.Node) bool {
		if id, ok := n.(*ast.Ident); ok && id.Name == name {
			found = true
		}
		return true
	})
	return found
}

func c38ReturnsInBody(b *ast.BlockStmt) bool {
	for _, st := range b.List {
		if _, ok := st.(*ast.ReturnStmt); ok {
			return true
		}
	}
	return false
}

func init() {
	register(func(repo string) ([]fact, error) {
		fset := token.NewFileSet()
		srvDir := filepath.Join(repo, "proxy", "server")
		srvFiles, err := c07ParseDir(fset, srvDir)
		if err != nil {
			return nil, err
		}
		funcs := map[string][]*ast.FuncDecl{}
		for _, f := range srvFiles {
			for _, d := range f.Decls {
				if fd, ok := d.(*ast.FuncDecl); ok {
					funcs[fd.Name.Name] = append(funcs[fd.Name.Name], fd)
				}
			}
		}
		var facts []fact

		// --- goroutine roots of the session path
		sessionPath := map[string]bool{"server.go": true, "session.go": true, "client_conn.go": true}
		var roots []string
		sawOnConn := false
		for _, f := range srvFiles {
			base := filepath.Base(fset.Position(f.Pos()).Filename)
			if !(sessionPath[base] || strings.HasPrefix(base, "executor")) {
				continue
			}
			for _, d := range f.Decls {
				fd, ok := d.(*ast.FuncDecl)
				if !ok || fd.Body == nil {
					continue
				}
				litN := 0
				ast.Inspect(fd.Body, func(nd ast.Node) bool {
					g, ok := nd.(*ast.GoStmt)
					if !ok {
						return true
					}
					target := "func literal"
					switch fn := g.Call.Fun.(type) {
					case *ast.Ident:
						target = fn.Name
					case *ast.SelectorExpr:
						target = fn.Sel.Name
					}
					if target == "onConn" {
						sawOnConn = true
					}
					if base == "server.go" && c38FuncName(fd) == "Server.Run" && target == "Run" {
						// go s.adminServer.Run(): the admin HTTP server, not a client-byte path
						return true
					}
					site := fmt.Sprintf("%s:%s:%s", base, c38FuncName(fd), target)
					if target == "func literal" {
						litN++
						site = fmt.Sprintf("%s:%s:func literal %d", base, c38FuncName(fd), litN)
					}
					roots = append(roots, fmt.Sprintf("(%q, %q)", site, c38RootStatus(g.Call, funcs)))
					return true
				})
			}
		}
		if !sawOnConn {
			return nil, fmt.Errorf("c38: `go s.onConn(conn)` not found in proxy/server")
		}
		sort.Strings(roots)
		facts = append(facts, fact{name: "c38Roots", typ: "List (String × String)", val: "[" + strings.Join(roots, ", ") + "]",
			doc: "C38: the go statements of the session path of proxy/server (file:function:target) and how a panic in the started goroutine is stopped"})

		for _, x := range []struct{ fn, lean, doc string }{
			{"Server.onConn", "c38OnConnRecovers", "C38: Server.onConn has a deferred recover() among its top-level statements"},
			{"Session.Run", "c38RunRecovers", "C38: Session.Run has a deferred recover() among its top-level statements"},
			{"SessionExecutor.handleQuery", "c38HandleQueryRecovers", "C38: SessionExecutor.handleQuery has a deferred recover() among its top-level statements"},
		} {
			fd := c38FindFunc(srvFiles, x.fn)
			if fd == nil {
				return nil, fmt.Errorf("c38: function %s not found in proxy/server", x.fn)
			}
			facts = append(facts, fact{name: x.lean, typ: "Bool", val: c38Bool(c38HasDeferredRecover(fd.Body)), doc: x.doc})
		}

		// --- process exits
		var exits []string
		for _, dir := range []string{"proxy/server", "mysql", "backend", "util", "log", "proxy/plan", "proxy/router"} {
			files, err := c07ParseDir(fset, filepath.Join(repo, filepath.FromSlash(dir)))
			if err != nil {
				return nil, err
			}
			for _, f := range files {
				// which local name does the standard "log" package have in this file (if imported)?
				stdlog := ""
				for _, im := range f.Imports {
					if im.Path.Value == `"log"` {
						stdlog = "log"
						if im.Name != nil {
							stdlog = im.Name.Name
						}
					}
				}
				ast.Inspect(f, func(n ast.Node) bool {
					c, ok := n.(*ast.CallExpr)
					if !ok {
						return true
					}
					sel, ok := c.Fun.(*ast.SelectorExpr)
					if !ok {
						return true
					}
					pk, ok := sel.X.(*ast.Ident)
					if !ok {
						return true
					}
					if (pk.Name == "os" || pk.Name == "syscall") && sel.Sel.Name == "Exit" ||
						(stdlog != "" && pk.Name == stdlog && (strings.HasPrefix(sel.Sel.Name, "Fatal") || strings.HasPrefix(sel.Sel.Name, "Panic"))) {
						exits = append(exits, fmt.Sprintf("%q", fmt.Sprintf("%s/%s: %s.%s", dir, filepath.Base(fset.Position(c.Pos()).Filename), pk.Name, sel.Sel.Name)))
					}
					return true
				})
			}
		}
		sort.Strings(exits)
		facts = append(facts, fact{name: "c38ExitCalls", typ: "List String", val: "[" + strings.Join(exits, ", ") + "]",
			doc: "C38: calls that terminate the process (os.Exit, syscall.Exit, stdlib log.Fatal*/Panic*) in proxy/server, proxy/plan, proxy/router, mysql, backend, util, log"})

		// --- writes to package-level variables in the modelled decoders
		pkgVars := map[string]bool{}
		for _, f := range srvFiles {
			for _, d := range f.Decls {
				if gd, ok := d.(*ast.GenDecl); ok && gd.Tok == token.VAR {
					for _, sp := range gd.Specs {
						for _, n := range sp.(*ast.ValueSpec).Names {
							pkgVars[n.Name] = true
						}
					}
				}
			}
		}
		decoders := []string{"ClientConn.readHandshakeResponse", "SessionExecutor.ExecuteCommand", "SessionExecutor.handleStmtExecute",
			"SessionExecutor.bindStmtArgs", "SessionExecutor.handleStmtSendLongData", "SessionExecutor.handleStmtReset",
			"SessionExecutor.handleStmtClose", "SessionExecutor.handleStmtPrepare", "SessionExecutor.handleFieldList",
			"SessionExecutor.handleUseDB", "Stmt.ResetParams", "Stmt.SetParamTypes"}
		var shared []string
		for _, name := range decoders {
			fd := c38FindFunc(srvFiles, name)
			if fd == nil {
				return nil, fmt.Errorf("c38: decoder %s not found in proxy/server", name)
			}
			// identifiers declared locally shadow package variables
			local := map[string]bool{}
			if fd.Recv != nil {
				for _, fl := range fd.Recv.List {
					for _, n := range fl.Names {
						local[n.Name] = true
					}
				}
			}
			for _, fl := range fd.Type.Params.List {
				for _, n := range fl.Names {
					local[n.Name] = true
				}
			}
			if fd.Type.Results != nil {
				for _, fl := range fd.Type.Results.List {
					for _, n := range fl.Names {
						local[n.Name] = true
					}
				}
			}
			ast.Inspect(fd.Body, func(n ast.Node) bool {
				switch s := n.(type) {
				case *ast.AssignStmt:
					if s.Tok == token.DEFINE {
						for _, l := range s.Lhs {
							if id, ok := l.(*ast.Ident); ok {
								local[id.Name] = true
							}
						}
					}
				case *ast.ValueSpec:
					for _, id := range s.Names {
						local[id.Name] = true
					}
				case *ast.RangeStmt:
					if s.Tok == token.DEFINE {
						if id, ok := s.Key.(*ast.Ident); ok {
							local[id.Name] = true
						}
						if id, ok := s.Value.(*ast.Ident); ok {
							local[id.Name] = true
						}
					}
				}
				return true
			})
			rootOf := func(e ast.Expr) string {
				for {
					switch x := e.(type) {
					case *ast.SelectorExpr:
						e = x.X
					case *ast.IndexExpr:
						e = x.X
					case *ast.StarExpr:
						e = x.X
					case *ast.ParenExpr:
						e = x.X
					case *ast.Ident:
						return x.Name
					default:
						return ""
					}
				}
			}
			for _, w := range c07Writes(fset, fd.Body, func(l ast.Expr) bool {
				r := rootOf(l)
				return r != "" && !local[r] && pkgVars[r]
			}) {
				shared = append(shared, fmt.Sprintf("%q", name+": "+w))
			}
		}
		sort.Strings(shared)
		facts = append(facts, fact{name: "c38SharedWrites", typ: "List String", val: "[" + strings.Join(shared, ", ") + "]",
			doc: "C38: writes to package-level variables of proxy/server in the decoders modelled by Model/Crash.lean"})

		// --- variation points
		bind := c38FindFunc(srvFiles, "SessionExecutor.bindStmtArgs")
		guards, clauses := 0, 0
		ast.Inspect(bind.Body, func(n ast.Node) bool {
			cc, ok := n.(*ast.CaseClause)
			if !ok {
				return true
			}
			format := false
			for _, st := range cc.Body {
				ast.Inspect(st, func(m ast.Node) bool {
					if c, ok := m.(*ast.CallExpr); ok {
						if sel, ok := c.Fun.(*ast.SelectorExpr); ok && strings.HasPrefix(sel.Sel.Name, "FormatBinary") {
							format = true
						}
					}
					return true
				})
			}
			if !format {
				return true
			}
			clauses++
			for _, st := range cc.Body {
				if is, ok := st.(*ast.IfStmt); ok && c38ReturnsInBody(is.Body) && c38MentionsIdent(is.Cond, "n") &&
					c38MentionsIdent(is.Cond, "paramValues") {
					guards++
					break
				}
			}
			return true
		})
		if clauses != 3 {
			return nil, fmt.Errorf("c38: expected 3 case clauses calling mysql.FormatBinary* in bindStmtArgs, found %d", clauses)
		}
		if guards != 0 && guards != 3 {
			return nil, fmt.Errorf("c38: %d of the 3 temporal clauses of bindStmtArgs check the payload length; the model knows only none or all", guards)
		}
		facts = append(facts, fact{name: "c38DateGuard", typ: "Bool", val: c38Bool(guards == 3),
			doc: "C38: bindStmtArgs compares len(paramValues) with pos+n before slicing a DATE/TIME/DATETIME payload"})

		exe := c38FindFunc(srvFiles, "SessionExecutor.handleStmtExecute")
		if exe == nil {
			return nil, fmt.Errorf("c38: handleStmtExecute not found")
		}
		deferIdx, lookupIdx, ifParamIdx := -1, -1, -1
		for i, st := range exe.Body.List {
			switch s := st.(type) {
			case *ast.DeferStmt:
				if sel, ok := s.Call.Fun.(*ast.SelectorExpr); ok && sel.Sel.Name == "ResetParams" {
					if deferIdx >= 0 {
						return nil, fmt.Errorf("c38: handleStmtExecute defers ResetParams twice")
					}
					deferIdx = i
				}
			case *ast.IfStmt:
				if u, ok := s.Cond.(*ast.UnaryExpr); ok && u.Op == token.NOT {
					if id, ok := u.X.(*ast.Ident); ok && id.Name == "ok" && lookupIdx < 0 {
						lookupIdx = i
					}
				}
				if b, ok := s.Cond.(*ast.BinaryExpr); ok && b.Op == token.GTR {
					if id, ok := b.X.(*ast.Ident); ok && id.Name == "paramNum" {
						ifParamIdx = i
					}
				}
			}
		}
		if deferIdx < 0 || lookupIdx < 0 || ifParamIdx < 0 {
			return nil, fmt.Errorf("c38: handleStmtExecute: defer s.ResetParams() / statement lookup / `if paramNum > 0` not found (%d %d %d)", deferIdx, lookupIdx, ifParamIdx)
		}
		early := deferIdx == lookupIdx+1
		late := deferIdx > ifParamIdx
		if !early && !late {
			return nil, fmt.Errorf("c38: handleStmtExecute defers s.ResetParams() at an unexpected place (statement %d)", deferIdx)
		}
		facts = append(facts, fact{name: "c38ResetEarly", typ: "Bool", val: c38Bool(early),
			doc: "C38: handleStmtExecute defers s.ResetParams() right after the statement lookup (otherwise: after binding, just before handleQuery)"})

		mysqlFiles, err := c07ParseDir(fset, filepath.Join(repo, "mysql"))
		if err != nil {
			return nil, err
		}
		chk := c38FindFunc(mysqlFiles, "CheckHashPassword")
		if chk == nil {
			return nil, fmt.Errorf("c38: mysql.CheckHashPassword not found")
		}
		lenGuard := false
		sawLoop := false
		for _, st := range chk.Body.List {
			switch s := st.(type) {
			case *ast.IfStmt:
				if !sawLoop && c38ReturnsInBody(s.Body) && c38MentionsIdent(s.Cond, "clientResp") && c38MentionsIdent(s.Cond, "len") {
					lenGuard = true
				}
			case *ast.RangeStmt:
				if c38MentionsIdent(s.X, "clientResp") {
					sawLoop = true
				}
			}
		}
		if !sawLoop {
			return nil, fmt.Errorf("c38: the loop over clientResp was not found in mysql.CheckHashPassword")
		}
		facts = append(facts, fact{name: "c38HashLenGuard", typ: "Bool", val: c38Bool(lenGuard),
			doc: "C38: mysql.CheckHashPassword returns before its XOR loop when len(clientResp) is not the digest length"})

		// --- constants the model hard-codes
		for _, c := range []struct{ goName, lean string }{
			{"ComQuit", "c38ComQuit"}, {"ComInitDB", "c38ComInitDB"}, {"ComQuery", "c38ComQuery"}, {"ComFieldList", "c38ComFieldList"},
			{"ComPing", "c38ComPing"}, {"ComStmtPrepare", "c38ComStmtPrepare"}, {"ComStmtExecute", "c38ComStmtExecute"},
			{"ComStmtSendLongData", "c38ComStmtSendLongData"}, {"ComStmtClose", "c38ComStmtClose"}, {"ComStmtReset", "c38ComStmtReset"},
			{"ComSetOption", "c38ComSetOption"},
			{"ClientConnectWithDB", "c38ClientConnectWithDB"}, {"ClientProtocol41", "c38ClientProtocol41"},
			{"ClientSecureConnection", "c38ClientSecureConnection"}, {"ClientPluginAuth", "c38ClientPluginAuth"},
			{"ClientPluginAuthLenencClientData", "c38ClientPluginAuthLenencClientData"},
		} {
			v, err := c38IotaConst(mysqlFiles, c.goName)
			if err != nil {
				return nil, err
			}
			facts = append(facts, fact{name: c.lean, typ: "Nat", val: strconv.FormatUint(v, 10), doc: "C38: mysql." + c.goName})
		}
		return facts, nil
	})
}
