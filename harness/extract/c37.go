package extract

import (
	"bytes"
	"fmt"
	"go/ast"
	"go/parser"
	"go/printer"
	"go/token"
	"path/filepath"
	"strconv"
	"strings"
)

// C37 — facts of util/time_wheel.go and proxy/server/server.go the theorems
// and the model driver depend on:
//
//	c37PipelineCap   capacity of TimeWheel.pipelineC (make(chan PipeLineItem, N) in NewTimeWheel)
//	c37DrainLimit    bound of the drain loop in start() (count < N)
//	c37TickSeconds   timeWheelUnit of the proxy, in seconds (time.Second * N)
//	c37BucketsNum    timeWheelBucketsNum of the proxy
//
// and one structural fact, checked here (a mismatch is an error): the body of
// the loop of TimeWheel.start, after its time.Sleep(tw.tick), is statement for
// statement the body of the hook VerifLoopBody (util/verif_c37.go) through
// which the harness drives ticks, and the sessions register with
// tw.Add(<server>.sessionTimeout, cc, cc.Close) / tw.Remove(cc).
func init() { register(extractC37) }

func c37IntExpr(e ast.Expr) (int64, bool) {
	switch x := e.(type) {
	case *ast.BasicLit:
		if x.Kind == token.INT {
			n, err := strconv.ParseInt(x.Value, 0, 64)
			return n, err == nil
		}
	case *ast.ParenExpr:
		return c37IntExpr(x.X)
	case *ast.BinaryExpr:
		a, ok1 := c37IntExpr(x.X)
		b, ok2 := c37IntExpr(x.Y)
		if ok1 && ok2 {
			switch x.Op {
			case token.MUL:
				return a * b, true
			case token.ADD:
				return a + b, true
			case token.SHL:
				return a << uint(b), true
			}
		}
	}
	return 0, false
}

func c37Print(fset *token.FileSet, n interface{}) string {
	var b bytes.Buffer
	printer.Fprint(&b, fset, n)
	// drop comments-free differences in blank space
	return strings.Join(strings.Fields(b.String()), " ")
}

func c37Func(f *ast.File, recv, name string) *ast.FuncDecl {
	for _, d := range f.Decls {
		fd, ok := d.(*ast.FuncDecl)
		if !ok || fd.Name.Name != name {
			continue
		}
		if recv == "" && fd.Recv == nil {
			return fd
		}
		if recv != "" && fd.Recv != nil && len(fd.Recv.List) == 1 {
			if st, ok := fd.Recv.List[0].Type.(*ast.StarExpr); ok {
				if id, ok := st.X.(*ast.Ident); ok && id.Name == recv {
					return fd
				}
			}
		}
	}
	return nil
}

func extractC37(repo string) ([]fact, error) {
	fset := token.NewFileSet()
	twPath := filepath.Join(repo, "util", "time_wheel.go")
	tw, err := parser.ParseFile(fset, twPath, nil, 0)
	if err != nil {
		return nil, fmt.Errorf("C37: %v", err)
	}
	// capacity of the pipeline
	var capN int64 = -1
	if fd := c37Func(tw, "", "NewTimeWheel"); fd != nil {
		ast.Inspect(fd, func(n ast.Node) bool {
			kv, ok := n.(*ast.KeyValueExpr)
			if !ok {
				return true
			}
			if id, ok := kv.Key.(*ast.Ident); !ok || id.Name != "pipelineC" {
				return true
			}
			if call, ok := kv.Value.(*ast.CallExpr); ok && len(call.Args) == 2 {
				if id, ok := call.Fun.(*ast.Ident); ok && id.Name == "make" {
					if v, ok := c37IntExpr(call.Args[1]); ok {
						capN = v
					}
				}
			}
			return true
		})
	}
	if capN < 0 {
		return nil, fmt.Errorf("C37: pipelineC: make(chan PipeLineItem, N) not found in NewTimeWheel")
	}
	// the loop of start()
	start := c37Func(tw, "TimeWheel", "start")
	if start == nil || len(start.Body.List) != 1 {
		return nil, fmt.Errorf("C37: TimeWheel.start is not a single loop")
	}
	loop, ok := start.Body.List[0].(*ast.ForStmt)
	if !ok || loop.Cond != nil || len(loop.Body.List) < 2 {
		return nil, fmt.Errorf("C37: TimeWheel.start is not `for { … }`")
	}
	if c37Print(fset, loop.Body.List[0]) != "time.Sleep(tw.tick)" {
		return nil, fmt.Errorf("C37: the loop of TimeWheel.start does not begin with time.Sleep(tw.tick)")
	}
	var limit int64 = -1
	for _, st := range loop.Body.List[1:] {
		if f, ok := st.(*ast.ForStmt); ok && f.Cond != nil {
			if be, ok := f.Cond.(*ast.BinaryExpr); ok && be.Op == token.LAND {
				if r, ok := be.Y.(*ast.BinaryExpr); ok && r.Op == token.LSS && c37Print(fset, r.X) == "count" {
					if v, ok := c37IntExpr(r.Y); ok && c37Print(fset, be.X) == "count >= 0" {
						limit = v
					}
				}
			}
		}
	}
	if limit < 0 {
		return nil, fmt.Errorf("C37: drain loop `for count >= 0 && count < N` not found in TimeWheel.start")
	}
	// the hook's body must be the same statements
	hookPath := filepath.Join(repo, "util", "verif_c37.go")
	hf, err := parser.ParseFile(fset, hookPath, nil, 0)
	if err != nil {
		return nil, fmt.Errorf("C37: %v", err)
	}
	hook := c37Func(hf, "TimeWheel", "VerifLoopBody")
	if hook == nil {
		return nil, fmt.Errorf("C37: hook VerifLoopBody not found")
	}
	hs := hook.Body.List
	if len(hs) == 0 || c37Print(fset, hs[len(hs)-1]) != "return false" {
		return nil, fmt.Errorf("C37: hook VerifLoopBody does not end with `return false`")
	}
	hs = hs[:len(hs)-1]
	ss := loop.Body.List[1:]
	if len(hs) != len(ss) {
		return nil, fmt.Errorf("C37: the loop body of TimeWheel.start has %d statements after the sleep, the hook VerifLoopBody %d", len(ss), len(hs))
	}
	for i := range ss {
		a := c37Print(fset, ss[i])
		b := strings.ReplaceAll(c37Print(fset, hs[i]), "return true", "return")
		if a != b {
			return nil, fmt.Errorf("C37: statement %d of the loop of TimeWheel.start differs from the hook VerifLoopBody:\n  start: %s\n  hook:  %s", i+1, a, b)
		}
	}
	// the proxy's wheel
	srvPath := filepath.Join(repo, "proxy", "server", "server.go")
	srv, err := parser.ParseFile(fset, srvPath, nil, 0)
	if err != nil {
		return nil, fmt.Errorf("C37: %v", err)
	}
	var tickS, buckets int64 = -1, -1
	ast.Inspect(srv, func(n ast.Node) bool {
		vs, ok := n.(*ast.ValueSpec)
		if !ok || len(vs.Names) != 1 || len(vs.Values) != 1 {
			return true
		}
		switch vs.Names[0].Name {
		case "timeWheelUnit":
			if be, ok := vs.Values[0].(*ast.BinaryExpr); ok && be.Op == token.MUL {
				x, y := be.X, be.Y
				if c37Print(fset, y) == "time.Second" {
					x, y = y, x
				}
				if c37Print(fset, x) == "time.Second" {
					if v, ok := c37IntExpr(y); ok {
						tickS = v
					}
				}
			} else if c37Print(fset, vs.Values[0]) == "time.Second" {
				tickS = 1
			}
		case "timeWheelBucketsNum":
			if v, ok := c37IntExpr(vs.Values[0]); ok {
				buckets = v
			}
		}
		return true
	})
	if tickS < 0 || buckets < 0 {
		return nil, fmt.Errorf("C37: timeWheelUnit = time.Second * N / timeWheelBucketsNum = N not found in proxy/server/server.go")
	}
	srcS := c37Print(fset, srv)
	if !strings.Contains(srcS, "util.NewTimeWheel(timeWheelUnit, timeWheelBucketsNum)") ||
		!strings.Contains(srcS, "s.tw.Add(s.sessionTimeout, cc, cc.Close)") {
		return nil, fmt.Errorf("C37: server.go no longer creates the wheel with (timeWheelUnit, timeWheelBucketsNum) or registers sessions with s.tw.Add(s.sessionTimeout, cc, cc.Close)")
	}
	sess, err := parser.ParseFile(fset, filepath.Join(repo, "proxy", "server", "session.go"), nil, 0)
	if err != nil {
		return nil, fmt.Errorf("C37: %v", err)
	}
	sessS := c37Print(fset, sess)
	if !strings.Contains(sessS, "cc.proxy.tw.Add(cc.proxy.sessionTimeout, cc, cc.Close)") || !strings.Contains(sessS, "cc.proxy.tw.Remove(cc)") {
		return nil, fmt.Errorf("C37: session.go no longer refreshes with cc.proxy.tw.Add(cc.proxy.sessionTimeout, cc, cc.Close) / removes with cc.proxy.tw.Remove(cc)")
	}
	return []fact{
		{name: "c37PipelineCap", typ: "Nat", val: strconv.FormatInt(capN, 10), doc: "capacity of TimeWheel.pipelineC (util/time_wheel.go, NewTimeWheel)"},
		{name: "c37DrainLimit", typ: "Nat", val: strconv.FormatInt(limit, 10), doc: "items handled at most per tick by the drain loop of TimeWheel.start"},
		{name: "c37TickSeconds", typ: "Nat", val: strconv.FormatInt(tickS, 10), doc: "timeWheelUnit of proxy/server/server.go, in seconds"},
		{name: "c37BucketsNum", typ: "Nat", val: strconv.FormatInt(buckets, 10), doc: "timeWheelBucketsNum of proxy/server/server.go"},
	}, nil
}
