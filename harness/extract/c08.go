package extract

import (
	"fmt"
	"go/ast"
	"go/parser"
	"go/token"
	"path/filepath"
	"strconv"
)

// C08: the constants the Mycat-compatibility theorems depend on —
// c1, c2 of util/murmur.go, the literals of mixH1 and fmix, and
// PartitionLength of proxy/router/shard_mycat.go.

func init() { register(extractC08) }

func c08ConstInt(file *ast.File, name string) (uint64, bool) {
	var val uint64
	found := false
	ast.Inspect(file, func(n ast.Node) bool {
		vs, ok := n.(*ast.ValueSpec)
		if !ok {
			return true
		}
		for i, id := range vs.Names {
			if id.Name == name && i < len(vs.Values) {
				if lit, ok := vs.Values[i].(*ast.BasicLit); ok && lit.Kind == token.INT {
					if v, err := strconv.ParseUint(lit.Value, 0, 64); err == nil {
						val, found = v, true
					}
				}
			}
		}
		return true
	})
	return val, found
}

// c08FuncLits returns the integer literals of a function body in source order.
func c08FuncLits(file *ast.File, fn string) ([]uint64, bool) {
	var out []uint64
	found := false
	for _, d := range file.Decls {
		fd, ok := d.(*ast.FuncDecl)
		if !ok || fd.Name.Name != fn || fd.Body == nil {
			continue
		}
		found = true
		ast.Inspect(fd.Body, func(n ast.Node) bool {
			if lit, ok := n.(*ast.BasicLit); ok && lit.Kind == token.INT {
				if v, err := strconv.ParseUint(lit.Value, 0, 64); err == nil {
					out = append(out, v)
				}
			}
			return true
		})
	}
	return out, found
}

func extractC08(repo string) ([]fact, error) {
	fset := token.NewFileSet()
	mur, err := parser.ParseFile(fset, filepath.Join(repo, "util", "murmur.go"), nil, 0)
	if err != nil {
		return nil, fmt.Errorf("C08: %v", err)
	}
	myc, err := parser.ParseFile(fset, filepath.Join(repo, "proxy", "router", "shard_mycat.go"), nil, 0)
	if err != nil {
		return nil, fmt.Errorf("C08: %v", err)
	}
	var facts []fact
	for _, c := range []struct{ lean, name, doc string }{
		{"shardMurmurC1", "c1", "util/murmur.go: c1"},
		{"shardMurmurC2", "c2", "util/murmur.go: c2"},
	} {
		v, ok := c08ConstInt(mur, c.name)
		if !ok {
			return nil, fmt.Errorf("C08: constant %s not found in util/murmur.go", c.name)
		}
		facts = append(facts, fact{c.lean, "Nat", strconv.FormatUint(v, 10), c.doc})
	}
	pl, ok := c08ConstInt(myc, "PartitionLength")
	if !ok {
		return nil, fmt.Errorf("C08: constant PartitionLength not found in proxy/router/shard_mycat.go")
	}
	facts = append(facts, fact{"shardPartitionLength", "Nat", strconv.FormatUint(pl, 10), "proxy/router/shard_mycat.go: PartitionLength"})
	for _, f := range []struct{ lean, fn, doc string }{
		{"shardMixK1Lits", "mixK1", "util/murmur.go: integer literals of mixK1 (rotation distance)"},
		{"shardMixH1Lits", "mixH1", "util/murmur.go: integer literals of mixH1 (rotation distance, multiplier, addend)"},
		{"shardFmixLits", "fmix", "util/murmur.go: integer literals of fmix (shifts and multipliers)"},
		{"shardRotateLits", "rotateLeft", "util/murmur.go: integer literals of rotateLeft (word size)"},
	} {
		lits, ok := c08FuncLits(mur, f.fn)
		if !ok {
			return nil, fmt.Errorf("C08: function %s not found in util/murmur.go", f.fn)
		}
		s := "["
		for i, v := range lits {
			if i > 0 {
				s += ", "
			}
			s += strconv.FormatUint(v, 10)
		}
		s += "]"
		facts = append(facts, fact{f.lean, "List Nat", s, f.doc})
	}
	return facts, nil
}
