package extract

import (
	"fmt"
	"go/ast"
	"go/parser"
	"go/token"
	"path/filepath"
	"strconv"
)

// Constants of the health-check / fuse-recovery code (C27, C28):
// PingPeriod and CheckRepeat of backend/slice.go, maxPenalty and
// initErrorRecoveryCount of backend/node_fuse.go.

func init() {
	register(func(repo string) ([]fact, error) {
		want := []struct{ file, goName, leanName string }{
			{"backend/slice.go", "PingPeriod", "healthPingPeriod"},
			{"backend/slice.go", "CheckRepeat", "healthCheckRepeat"},
			{"backend/node_fuse.go", "maxPenalty", "healthMaxPenalty"},
			{"backend/node_fuse.go", "initErrorRecoveryCount", "healthInitErrorRecoveryCount"},
		}
		var out []fact
		for _, w := range want {
			v, err := intConst(filepath.Join(repo, w.file), w.goName)
			if err != nil {
				return nil, err
			}
			out = append(out, fact{name: w.leanName, typ: "Int", val: strconv.FormatInt(v, 10),
				doc: fmt.Sprintf("const %s of %s", w.goName, w.file)})
		}
		return out, nil
	})
}

// intConst finds `const name [type] = <integer literal>` at the top level of a file.
func intConst(path, name string) (int64, error) {
	fset := token.NewFileSet()
	f, err := parser.ParseFile(fset, path, nil, 0)
	if err != nil {
		return 0, err
	}
	for _, d := range f.Decls {
		gd, ok := d.(*ast.GenDecl)
		if !ok || gd.Tok != token.CONST {
			continue
		}
		for _, sp := range gd.Specs {
			vs := sp.(*ast.ValueSpec)
			for i, n := range vs.Names {
				if n.Name != name {
					continue
				}
				if i >= len(vs.Values) {
					return 0, fmt.Errorf("%s: const %s has no value of its own", path, name)
				}
				lit, ok := vs.Values[i].(*ast.BasicLit)
				if !ok || lit.Kind != token.INT {
					return 0, fmt.Errorf("%s: const %s is not an integer literal", path, name)
				}
				return strconv.ParseInt(lit.Value, 0, 64)
			}
		}
	}
	return 0, fmt.Errorf("%s: const %s not found", path, name)
}
