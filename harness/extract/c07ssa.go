package extract

// C07, typed translator: a points-to analysis of the planning code over go/ssa.
//
// Question: which instructions reachable from the planning entry points may write memory
// that the sessions of a namespace share (the router, its rules and shards, the namespace
// with its caches, package-level variables)?
//
// Method (inclusion-based, flow- and context-insensitive, field-sensitive):
//   * the functions planning can reach: static calls, interface calls by class hierarchy
//     over the packages of the module, calls of function values by signature among the
//     functions whose address is taken;
//   * abstract objects: one per allocation site of the analysed code (private), one per
//     package-level variable (shared), one per shared struct type (whatever a *Router,
//     *BaseRule, *Namespace ... points to: memory built at load time, shared), one per
//     field of those for what the field points to ("proxy/router.BaseRule.subTableIndexes");
//     syntax trees built by the parser packages are one object per package;
//   * locations are (object, path of field names / "[]"); points-to sets respect static
//     types (no unsafe conversions);
//   * a private object stored into shared memory is shared from then on ("published").
// Reported: every store, map update / delete, append (it may write into the backing array
// of its first argument), copy, channel send whose target may be shared memory, every
// shared pointer handed to a function outside the module that is not known to only read
// ("escape"), every lock / atomic on shared memory ("sync"), and every call into the
// packages that are not analysed but stand for a cell of their own: log, stats, the
// MySQL-backed global sequence ("call").
// Not modelled: goroutines started by planning, reflection, unsafe.

import (
	"fmt"
	"go/token"
	"go/types"
	"os"
	"sort"
	"strings"

	"golang.org/x/tools/go/packages"
	"golang.org/x/tools/go/ssa"
	"golang.org/x/tools/go/ssa/ssautil"
)

const c07Mod = "github.com/XiaoMi/Gaea"

type c07Effect struct{ Fn, Kind, Target string }

type c07Result struct {
	Reachable int
	Entries   []string
	Effects   []c07Effect
	Getters   [][2]string
}

// an abstract object: an allocation site of the analysed code (private until it
// is stored into shared memory), a package-level variable, or memory reachable
// from the shared roots that the analysed code did not allocate (synthetic)
type c07obj struct {
	label     string
	shared    bool
	published bool
	typ       types.Type // what an allocation site allocates (nil: unknown)
	derived   bool // synthetic, reached through another synthetic object
	blob      bool // one location for the whole object (the parser's syntax trees)
	locs      []int32
}

type c07loc struct {
	o    *c07obj
	path string
}

type c07load struct {
	dst int32
	t   types.Type
}

type c07store struct {
	src int32
	agg bool
}

type c07off struct {
	s   string
	dst int32
}

type c07filt struct {
	dst int32
	t   types.Type // only objects a pointer of this type can point to
}

type c07node struct {
	t      types.Type // static type of the value (nil: none), points-to sets respect it
	pts    map[int32]struct{}
	copyTo map[int32]struct{}
	filtTo []c07filt
	offTo  []c07off
	loads  []c07load
	stores []c07store
	delta  []int32
	queued bool
}

// a place where the analysed code writes memory (or hands it to code outside the module)
type c07write struct {
	fn   *ssa.Function
	kind string
	addr int32
	note string
}

type c07tupKey struct {
	v ssa.Value
	i int
}

type c07an struct {
	prog    *ssa.Program
	nodes   []*c07node
	vals    map[ssa.Value]int32
	tups    map[c07tupKey]int32
	rets    map[*ssa.Function][]int32
	locID   map[c07loc]int32
	locs    []c07loc
	locT    []types.Type // the type of the memory at a location (nil: unknown)
	cont    []int32      // content node of a location, -1 = none yet
	reach   map[*ssa.Function]bool
	order   []*ssa.Function
	writes  []c07write
	taken   map[string][]*ssa.Function // address-taken functions by signature
	named   []types.Type               // concrete named types (T and *T) of the loaded packages
	plC     map[types.Type]bool
	sites   map[ssa.Value]*c07obj
	syn     map[string]*c07obj
	globals map[*ssa.Global]*c07obj
	work    []int32
	impl    map[string][]*ssa.Function
	blobs   map[string]*c07obj
	seedC   map[types.Type][]*c07obj
	calls   map[c07Effect]struct{}
}

// packages whose named types are shared between the sessions of a namespace
var c07SharedPkgs = map[string]bool{
	c07Mod + "/proxy/router":   true,
	c07Mod + "/proxy/sequence": true,
	c07Mod + "/backend":        true,
	c07Mod + "/util/cache":     true,
	c07Mod + "/models":         true,
}

// in proxy/server everything is shared between sessions except what a session owns; a type
// added later counts as shared until it is listed here
var c07SessionOwned = map[string]bool{
	c07Mod + "/proxy/server.SessionExecutor":       true,
	c07Mod + "/proxy/server.Session":               true,
	c07Mod + "/proxy/server.ClientConn":            true,
	c07Mod + "/proxy/server.Stmt":                  true,
	c07Mod + "/proxy/server.HandshakeResponseInfo": true,
	c07Mod + "/proxy/server.Response":              true,
	c07Mod + "/proxy/server.executeResult":         true,
	c07Mod + "/proxy/server.sliceResult":           true,
	c07Mod + "/proxy/server.errorCollector":        true,
}

func c07SharedNamed(pkg, name string) bool {
	if c07SharedPkgs[pkg] {
		return true
	}
	return pkg == c07Mod+"/proxy/server" && !c07SessionOwned[pkg+"."+name]
}

func c07Short(s string) string { return strings.ReplaceAll(s, c07Mod+"/", "") }

func c07Load(repo string) (*ssa.Program, []*ssa.Package, error) {
	env := append(os.Environ(), "GOFLAGS=-mod=mod", "GOPROXY=off", "GOSUMDB=off", "GOTOOLCHAIN=local", "CGO_ENABLED=0")
	cfg := &packages.Config{Mode: packages.NeedName | packages.NeedImports | packages.NeedDeps | packages.NeedModule, Dir: repo, Env: env}
	pkgs, err := packages.Load(cfg, "./proxy/server")
	if err != nil {
		return nil, nil, err
	}
	var mine []string
	packages.Visit(pkgs, nil, func(p *packages.Package) {
		if p.Module != nil && p.Module.Path == c07Mod {
			mine = append(mine, p.PkgPath)
		}
	})
	sort.Strings(mine)
	if len(mine) < 10 {
		return nil, nil, fmt.Errorf("c07: expected the packages of %s below proxy/server, found %d", c07Mod, len(mine))
	}
	cfg2 := &packages.Config{Mode: packages.NeedName | packages.NeedFiles | packages.NeedCompiledGoFiles | packages.NeedImports | packages.NeedTypes | packages.NeedSyntax | packages.NeedTypesInfo | packages.NeedTypesSizes | packages.NeedModule, Dir: repo, Env: env}
	pkgs2, err := packages.Load(cfg2, mine...)
	if err != nil {
		return nil, nil, err
	}
	for _, p := range pkgs2 {
		for _, e := range p.Errors {
			return nil, nil, fmt.Errorf("c07: %s: %v", p.PkgPath, e)
		}
	}
	prog, spkgs := ssautil.Packages(pkgs2, ssa.InstantiateGenerics)
	prog.Build()
	return prog, spkgs, nil
}

func (a *c07an) pointerLike(t types.Type) bool {
	if v, ok := a.plC[t]; ok {
		return v
	}
	a.plC[t] = false // recursion guard
	r := false
	switch u := t.Underlying().(type) {
	case *types.Pointer, *types.Slice, *types.Map, *types.Chan, *types.Signature, *types.Interface:
		r = true
	case *types.Basic:
		r = u.Kind() == types.UnsafePointer
	case *types.Struct:
		for i := 0; i < u.NumFields(); i++ {
			if a.pointerLike(u.Field(i).Type()) {
				r = true
				break
			}
		}
	case *types.Array:
		r = a.pointerLike(u.Elem())
	case *types.Tuple:
		for i := 0; i < u.Len(); i++ {
			if a.pointerLike(u.At(i).Type()) {
				r = true
			}
		}
	}
	a.plC[t] = r
	return r
}

func c07Aggregate(t types.Type) bool {
	switch t.Underlying().(type) {
	case *types.Struct, *types.Array, *types.Tuple:
		return true
	}
	return false
}

func c07NamedOf(t types.Type) *types.Named {
	if p, ok := t.(*types.Pointer); ok {
		t = p.Elem()
	}
	n, _ := t.(*types.Named)
	return n
}

func (a *c07an) synObj(label string) *c07obj {
	if o, ok := a.syn[label]; ok {
		return o
	}
	o := &c07obj{label: label, shared: true}
	a.syn[label] = o
	return o
}

// seed: values of these types point to memory shared by the sessions. A pointer to a
// shared struct type points to the synthetic object of that type; a shared interface
// type to the objects of every shared struct type implementing it.
func (a *c07an) seed(t types.Type) []*c07obj {
	if r, ok := a.seedC[t]; ok {
		return r
	}
	var r []*c07obj
	n := c07NamedOf(t)
	_, isPtr := t.(*types.Pointer)
	if n != nil && n.Obj().Pkg() != nil {
		iface, isIface := n.Underlying().(*types.Interface)
		q := n.Obj().Pkg().Path() + "." + n.Obj().Name()
		if (isPtr || isIface) && c07SharedNamed(n.Obj().Pkg().Path(), n.Obj().Name()) {
			if !isIface {
				o := a.synObj(c07Short(q))
				o.typ = n
				r = append(r, o)
			} else {
				for _, T := range a.named {
					p, ok := T.(*types.Pointer)
					if !ok || !types.Implements(T, iface) {
						continue
					}
					if s := a.seed(T); len(s) > 0 {
						r = append(r, s...)
					} else if m := p.Elem().(*types.Named); !strings.HasSuffix(m.Obj().Pkg().Path(), "_test") {
						// an implementation outside the shared packages
						o := a.synObj(c07Short(m.Obj().Pkg().Path() + "." + m.Obj().Name()))
						o.typ = m
						r = append(r, o)
					}
				}
			}
		}
	}
	a.seedC[t] = r
	return r
}

func (a *c07an) site(v ssa.Value, what string) *c07obj {
	if o, ok := a.sites[v]; ok {
		return o
	}
	fn := ""
	if in, ok := v.(ssa.Instruction); ok && in.Parent() != nil {
		fn = c07Short(in.Parent().String())
		if p := in.Parent().Package(); p != nil && c07BlobPkg(p.Pkg.Path()) {
			// the syntax trees the parser builds: one abstract object per package
			o := a.blobs[p.Pkg.Path()]
			if o == nil {
				o = &c07obj{label: "memory allocated in " + c07Short(p.Pkg.Path()), blob: true}
				a.blobs[p.Pkg.Path()] = o
			}
			a.sites[v] = o
			return o
		}
	}
	o := &c07obj{label: what + " in " + fn}
	a.sites[v] = o
	return o
}

func c07BlobPkg(path string) bool {
	return path == c07Mod+"/parser" || strings.HasPrefix(path, c07Mod+"/parser/")
}

func (a *c07an) newNode() int32 {
	a.nodes = append(a.nodes, &c07node{})
	return int32(len(a.nodes) - 1)
}

func c07Prefixes(p string) []string {
	var out []string
	for i := len(p) - 1; i >= 0; i-- {
		if p[i] == '.' || p[i] == '[' {
			out = append(out, p[:i])
		}
	}
	return out
}

func (a *c07an) loc(o *c07obj, path string) int32 {
	return a.locTyped(o, path, nil)
}

func (a *c07an) locTyped(o *c07obj, path string, t types.Type) int32 {
	if o.blob {
		path = ""
	}
	l := c07loc{o, path}
	if id, ok := a.locID[l]; ok {
		return id
	}
	id := int32(len(a.locs))
	a.locID[l] = id
	a.locs = append(a.locs, l)
	if path == "" {
		t = o.typ
	}
	a.locT = append(a.locT, t)
	a.cont = append(a.cont, -1)
	o.locs = append(o.locs, id)
	return id
}

// the node holding what is stored at a location
func (a *c07an) contNode(l int32) int32 {
	if a.cont[l] >= 0 {
		return a.cont[l]
	}
	n := a.newNode()
	a.cont[l] = n
	lc := a.locs[l]
	if !strings.HasSuffix(lc.path, ".**") {
		// everything below a location is summarised in <location>.** (loads of whole structs)
		for _, q := range c07Prefixes(lc.path) {
			a.copyEdge(n, a.contNode(a.loc(lc.o, q+".**")))
		}
	}
	return n
}

// the location of a field / of the elements of the memory at l; -1 when the memory at l
// has no such part (the pointer analysis is not type-filtered everywhere)
func (a *c07an) subLoc(l int32, s string) int32 {
	lc := a.locs[l]
	if lc.o.blob {
		return l
	}
	var ct types.Type
	if t := a.locT[l]; t != nil {
		switch u := t.Underlying().(type) {
		case *types.Struct:
			if s[0] != '.' {
				return -1
			}
			for i := 0; i < u.NumFields(); i++ {
				if u.Field(i).Name() == s[1:] {
					ct = u.Field(i).Type()
				}
			}
		case *types.Slice:
			if s == "[]" {
				ct = u.Elem()
			}
		case *types.Array:
			if s == "[]" {
				ct = u.Elem()
			}
		case *types.Chan:
			if s == "[]" {
				ct = u.Elem()
			}
		case *types.Map:
			if s == "[]" {
				ct = u.Elem()
			} else if s == "[k]" {
				ct = u.Key()
			}
		}
		if ct == nil {
			return -1
		}
	}
	p := lc.path + s
	if strings.Count(p, ".")+strings.Count(p, "[") > 6 {
		return a.locTyped(lc.o, ".*", nil)
	}
	return a.locTyped(lc.o, p, ct)
}

func (a *c07an) addPts(n int32, l int32) {
	if n < 0 || l < 0 {
		return
	}
	nd := a.nodes[n]
	if nd.pts == nil {
		nd.pts = map[int32]struct{}{}
	}
	if _, ok := nd.pts[l]; ok {
		return
	}
	if nd.t != nil && !a.fitsVal(l, nd.t) {
		return
	}
	nd.pts[l] = struct{}{}
	nd.delta = append(nd.delta, l)
	if !nd.queued {
		nd.queued = true
		a.work = append(a.work, n)
	}
}

func (a *c07an) copyEdge(src, dst int32) {
	if src < 0 || dst < 0 || src == dst {
		return
	}
	s := a.nodes[src]
	if s.copyTo == nil {
		s.copyTo = map[int32]struct{}{}
	}
	if _, ok := s.copyTo[dst]; ok {
		return
	}
	s.copyTo[dst] = struct{}{}
	for l := range s.pts {
		a.addPts(dst, l)
	}
}

// signature without parameter names and receiver
func c07SigKey(t types.Type) string {
	sig, ok := t.Underlying().(*types.Signature)
	if !ok {
		return c07TypeStr(t)
	}
	var b strings.Builder
	b.WriteString("func(")
	for i := 0; i < sig.Params().Len(); i++ {
		if i > 0 {
			b.WriteString(", ")
		}
		if sig.Variadic() && i == sig.Params().Len()-1 {
			b.WriteString("...")
		}
		b.WriteString(c07TypeStr(sig.Params().At(i).Type()))
	}
	b.WriteString(") (")
	for i := 0; i < sig.Results().Len(); i++ {
		if i > 0 {
			b.WriteString(", ")
		}
		b.WriteString(c07TypeStr(sig.Results().At(i).Type()))
	}
	b.WriteString(")")
	return b.String()
}

func c07TypeStr(t types.Type) string {
	return c07Short(types.TypeString(t, nil))
}

func (a *c07an) describe(l int32) string {
	lc := a.locs[l]
	s := lc.o.label + lc.path
	if !lc.o.shared && lc.o.published {
		s = "published " + s
	}
	return s
}

// what a location of shared memory points to when the analysed code did not store it:
// named after the variable or the field for the first step, after its type further down
func (a *c07an) pointee(lc c07loc, t types.Type) *c07obj {
	var o *c07obj
	if lc.o.derived {
		o = a.synObj("shared " + c07TypeStr(t))
	} else {
		o = a.synObj(lc.o.label + lc.path)
	}
	o.derived = true
	if o.typ == nil && !c07Aggregate(t) {
		o.typ = c07MemType(t)
	}
	if o.typ == nil {
		o.blob = true
	}
	return o
}

func (a *c07an) onLoad(l int32, ld c07load) {
	lc := a.locs[l]
	a.copyEdge(a.contNode(l), ld.dst)
	a.copyEdge(a.contNode(a.loc(lc.o, lc.path+".*")), ld.dst)
	for _, q := range c07Prefixes(lc.path) {
		a.copyEdge(a.contNode(a.loc(lc.o, q+".*")), ld.dst)
	}
	agg := c07Aggregate(ld.t)
	if agg {
		a.copyEdge(a.contNode(a.loc(lc.o, lc.path+".**")), ld.dst)
	}
	if lc.o.shared {
		if ss := a.seed(ld.t); len(ss) > 0 {
			for _, so := range ss {
				a.addPts(ld.dst, a.loc(so, ""))
			}
		} else {
			a.addPts(ld.dst, a.loc(a.pointee(lc, ld.t), ""))
		}
	}
}

func (a *c07an) onStore(l int32, st c07store) {
	if st.src < 0 {
		return
	}
	if st.agg {
		lc := a.locs[l]
		a.copyEdge(st.src, a.contNode(a.loc(lc.o, lc.path+".*")))
	} else {
		a.copyEdge(st.src, a.contNode(l))
	}
}

func (a *c07an) solve() {
	for len(a.work) > 0 {
		n := a.work[len(a.work)-1]
		a.work = a.work[:len(a.work)-1]
		nd := a.nodes[n]
		nd.queued = false
		delta := nd.delta
		nd.delta = nil
		for _, l := range delta {
			for _, off := range nd.offTo {
				a.addPts(off.dst, a.subLoc(l, off.s))
			}
			for _, ld := range nd.loads {
				a.onLoad(l, ld)
			}
			for _, st := range nd.stores {
				a.onStore(l, st)
			}
			for c := range nd.copyTo {
				a.addPts(c, l)
			}
			for _, ft := range nd.filtTo {
				if a.fits(l, ft.t) {
					a.addPts(ft.dst, l)
				}
			}
		}
	}
}

// can a pointer (or interface holding a pointer) of static type t point to location l?
func (a *c07an) fits(l int32, t types.Type) bool {
	lt := a.locT[l]
	if lt == nil {
		return true
	}
	p, ok := t.Underlying().(*types.Pointer)
	if !ok {
		return true
	}
	return types.Identical(p.Elem(), lt)
}

// may a value of static type t point to location l? (Go without unsafe conversions)
func (a *c07an) fitsVal(l int32, t types.Type) bool {
	lt := a.locT[l]
	if lt == nil {
		return true
	}
	switch u := t.Underlying().(type) {
	case *types.Pointer:
		if types.Identical(u.Elem(), lt) {
			return true
		}
		// pointer to the first element / field is not modelled separately
		return false
	case *types.Slice:
		switch v := lt.Underlying().(type) {
		case *types.Slice:
			return types.Identical(u.Elem(), v.Elem())
		case *types.Array:
			return types.Identical(u.Elem(), v.Elem())
		}
		return false
	case *types.Map, *types.Chan:
		return types.Identical(t.Underlying(), lt.Underlying())
	}
	return true
}

func (a *c07an) filtEdge(src, dst int32, t types.Type) {
	if src < 0 || dst < 0 {
		return
	}
	nd := a.nodes[src]
	for _, f := range nd.filtTo {
		if f.dst == dst && types.Identical(f.t, t) {
			return
		}
	}
	nd.filtTo = append(nd.filtTo, c07filt{dst, t})
	for l := range nd.pts {
		if a.fits(l, t) {
			a.addPts(dst, l)
		}
	}
}

// constraint constructors (they also apply the constraint to what is known already)
func (a *c07an) cOff(src int32, s string, dst int32) {
	if src < 0 || dst < 0 {
		return
	}
	nd := a.nodes[src]
	nd.offTo = append(nd.offTo, c07off{s, dst})
	for l := range nd.pts {
		a.addPts(dst, a.subLoc(l, s))
	}
}

func (a *c07an) cLoad(addr int32, dst int32, t types.Type) {
	if addr < 0 || dst < 0 || !a.pointerLike(t) {
		return
	}
	nd := a.nodes[addr]
	ld := c07load{dst, t}
	nd.loads = append(nd.loads, ld)
	for l := range nd.pts {
		a.onLoad(l, ld)
	}
}

func (a *c07an) cStore(addr int32, src int32, agg bool) {
	if addr < 0 || src < 0 {
		return
	}
	nd := a.nodes[addr]
	st := c07store{src, agg}
	nd.stores = append(nd.stores, st)
	for l := range nd.pts {
		a.onStore(l, st)
	}
}

func (a *c07an) v(x ssa.Value) int32 {
	switch g := x.(type) {
	case *ssa.Const, *ssa.Function, *ssa.Builtin:
		return -1
	case *ssa.Global:
		if n, ok := a.vals[x]; ok {
			return n
		}
		o := &c07obj{label: "var " + c07Short(g.Pkg.Pkg.Path()) + "." + g.Name(), shared: true, typ: c07MemType(g.Type())}
		o.blob = o.typ == nil
		a.globals[g] = o
		n := a.newNode()
		a.vals[x] = n
		a.addPts(n, a.loc(o, ""))
		return n
	}
	if n, ok := a.vals[x]; ok {
		return n
	}
	n := a.newNode()
	a.nodes[n].t = x.Type()
	a.vals[x] = n
	switch x.(type) {
	case *ssa.Alloc, *ssa.MakeSlice, *ssa.MakeMap, *ssa.MakeChan:
		return n // exactly the memory allocated here
	}
	for _, so := range a.seed(x.Type()) {
		a.addPts(n, a.loc(so, ""))
	}
	return n
}

func (a *c07an) tupNode(v ssa.Value, i int, t types.Type) int32 {
	k := c07tupKey{v, i}
	if n, ok := a.tups[k]; ok {
		return n
	}
	n := a.newNode()
	a.nodes[n].t = t
	a.tups[k] = n
	for _, so := range a.seed(t) {
		a.addPts(n, a.loc(so, ""))
	}
	return n
}

// memType: the type of the memory a value of type t points to
func c07MemType(t types.Type) types.Type {
	switch u := t.Underlying().(type) {
	case *types.Pointer:
		return u.Elem()
	case *types.Slice, *types.Map, *types.Chan:
		return t
	}
	return nil
}

func (a *c07an) fresh(x ssa.Value, what string) {
	o := a.site(x, what)
	if !o.blob && o.typ == nil {
		o.typ = c07MemType(x.Type())
		if o.typ == nil {
			o.blob = true
		}
	}
	a.addPts(a.v(x), a.loc(o, ""))
}

func (a *c07an) copyV(dst ssa.Value, src ssa.Value) {
	if a.pointerLike(dst.Type()) && a.pointerLike(src.Type()) {
		a.copyEdge(a.v(src), a.v(dst))
	}
}

func c07FieldName(t types.Type, i int) string {
	if p, ok := t.Underlying().(*types.Pointer); ok {
		t = p.Elem()
	}
	st, ok := t.Underlying().(*types.Struct)
	if !ok || i >= st.NumFields() {
		return "?"
	}
	return st.Field(i).Name()
}

func (a *c07an) retNodes(f *ssa.Function) []int32 {
	if r, ok := a.rets[f]; ok {
		return r
	}
	rs := f.Signature.Results()
	r := make([]int32, rs.Len())
	for k := range r {
		r[k] = a.newNode()
		a.nodes[r[k]].t = rs.At(k).Type()
		for _, so := range a.seed(rs.At(k).Type()) {
			a.addPts(r[k], a.loc(so, ""))
		}
	}
	a.rets[f] = r
	return r
}

func (a *c07an) gen(f *ssa.Function) {
	for _, b := range f.Blocks {
		for _, in := range b.Instrs {
			a.instr(f, in)
		}
	}
}

func (a *c07an) instr(f *ssa.Function, in ssa.Instruction) {
	switch i := in.(type) {
	case *ssa.Alloc:
		a.fresh(i, "new "+c07TypeStr(i.Type().Underlying().(*types.Pointer).Elem()))
	case *ssa.MakeSlice:
		a.fresh(i, "make "+c07TypeStr(i.Type()))
	case *ssa.MakeMap:
		a.fresh(i, "make "+c07TypeStr(i.Type()))
	case *ssa.MakeChan:
		a.fresh(i, "make "+c07TypeStr(i.Type()))
	case *ssa.FieldAddr:
		a.cOff(a.v(i.X), "."+c07FieldName(i.X.Type(), i.Field), a.v(i))
	case *ssa.Field:
		a.copyV(i, i.X) // a struct value in a register: its pointers are kept together
	case *ssa.IndexAddr:
		a.cOff(a.v(i.X), "[]", a.v(i))
	case *ssa.Index:
		a.copyV(i, i.X)
	case *ssa.Lookup:
		if _, ok := i.X.Type().Underlying().(*types.Map); ok {
			t := i.Type()
			if tp, ok := t.(*types.Tuple); ok {
				t = tp.At(0).Type()
			}
			tmp := a.newNode()
			a.cOff(a.v(i.X), "[]", tmp)
			a.cLoad(tmp, a.v(i), t)
		}
	case *ssa.Slice:
		a.copyEdge(a.v(i.X), a.v(i))
	case *ssa.UnOp:
		switch i.Op {
		case token.MUL:
			a.cLoad(a.v(i.X), a.v(i), i.Type())
		case token.ARROW:
			t := i.Type()
			if tp, ok := t.(*types.Tuple); ok {
				t = tp.At(0).Type()
			}
			tmp := a.newNode()
			a.cOff(a.v(i.X), "[]", tmp)
			a.cLoad(tmp, a.v(i), t)
		}
	case *ssa.Phi:
		for _, e := range i.Edges {
			a.copyV(i, e)
		}
	case *ssa.ChangeType:
		a.copyV(i, i.X)
	case *ssa.Convert:
		if a.pointerLike(i.Type()) && a.pointerLike(i.X.Type()) {
			a.copyV(i, i.X)
		} else if a.pointerLike(i.Type()) {
			a.fresh(i, "convert "+c07TypeStr(i.Type())) // []byte(string)
		}
	case *ssa.MultiConvert:
		a.copyV(i, i.X)
	case *ssa.ChangeInterface:
		a.copyV(i, i.X)
	case *ssa.MakeInterface:
		a.copyV(i, i.X)
	case *ssa.SliceToArrayPointer:
		a.copyV(i, i.X)
	case *ssa.TypeAssert:
		if a.pointerLike(i.X.Type()) {
			a.filtEdge(a.v(i.X), a.v(i), i.AssertedType)
		}
	case *ssa.Extract:
		if !a.pointerLike(i.Type()) {
			return
		}
		if _, ok := i.Tuple.(*ssa.Call); ok {
			a.copyEdge(a.tupNode(i.Tuple, i.Index, i.Type()), a.v(i))
			return
		}
		a.copyEdge(a.v(i.Tuple), a.v(i))
	case *ssa.Next:
		if r, ok := i.Iter.(*ssa.Range); ok {
			if m, ok := r.X.Type().Underlying().(*types.Map); ok {
				t1, t2 := a.newNode(), a.newNode()
				a.cOff(a.v(r.X), "[]", t1)
				a.cLoad(t1, a.v(i), m.Elem())
				a.cOff(a.v(r.X), "[k]", t2)
				a.cLoad(t2, a.v(i), m.Key())
			}
		}
	case *ssa.MakeClosure:
		fn := i.Fn.(*ssa.Function)
		for k, b := range i.Bindings {
			if k < len(fn.FreeVars) {
				a.copyV(fn.FreeVars[k], b)
			}
		}
	case *ssa.Store:
		a.writes = append(a.writes, c07write{f, "store", a.v(i.Addr), ""})
		if a.pointerLike(i.Val.Type()) {
			a.cStore(a.v(i.Addr), a.v(i.Val), c07Aggregate(i.Val.Type()))
		}
	case *ssa.MapUpdate:
		tmp := a.newNode()
		a.cOff(a.v(i.Map), "[]", tmp)
		a.writes = append(a.writes, c07write{f, "mapupdate", tmp, ""})
		if a.pointerLike(i.Value.Type()) {
			a.cStore(tmp, a.v(i.Value), c07Aggregate(i.Value.Type()))
		}
		if a.pointerLike(i.Key.Type()) {
			tk := a.newNode()
			a.cOff(a.v(i.Map), "[k]", tk)
			a.cStore(tk, a.v(i.Key), c07Aggregate(i.Key.Type()))
		}
	case *ssa.Send:
		tmp := a.newNode()
		a.cOff(a.v(i.Chan), "[]", tmp)
		a.writes = append(a.writes, c07write{f, "send", tmp, ""})
		if a.pointerLike(i.X.Type()) {
			a.cStore(tmp, a.v(i.X), c07Aggregate(i.X.Type()))
		}
	case *ssa.Call:
		a.call(f, &i.Call, i)
	case *ssa.Go:
		a.call(f, &i.Call, nil)
	case *ssa.Defer:
		a.call(f, &i.Call, nil)
	case *ssa.Return:
		rs := a.retNodes(f)
		for k, r := range i.Results {
			if k < len(rs) && a.pointerLike(r.Type()) {
				a.copyEdge(a.v(r), rs[k])
			}
		}
	}
}

func (a *c07an) bind(f *ssa.Function, callee *ssa.Function, args []ssa.Value, res ssa.Value, invoke bool) {
	if cat := c07Opaque(callee); cat != "" {
		a.calls[c07Effect{c07Short(f.String()), "call", cat}] = struct{}{}
		a.opaqueResult(callee, res)
		return
	}
	for k, arg := range args {
		if k < len(callee.Params) && a.pointerLike(arg.Type()) {
			if k == 0 && invoke {
				a.filtEdge(a.v(arg), a.v(callee.Params[0]), callee.Params[0].Type())
				continue
			}
			a.copyEdge(a.v(arg), a.v(callee.Params[k]))
		}
	}
	if res == nil {
		return
	}
	rs := a.retNodes(callee)
	if len(rs) == 1 {
		if a.pointerLike(res.Type()) {
			a.copyEdge(rs[0], a.v(res))
		}
	} else if len(rs) > 1 {
		tp := res.Type().(*types.Tuple)
		for k := range rs {
			if a.pointerLike(tp.At(k).Type()) {
				a.copyEdge(rs[k], a.tupNode(res, k, tp.At(k).Type()))
			}
		}
	}
}

// what an opaque function returns: memory of its own
func (a *c07an) opaqueResult(callee *ssa.Function, res ssa.Value) {
	if res == nil || !a.pointerLike(res.Type()) {
		return
	}
	o := a.site(res, "result of "+c07Short(callee.String()))
	o.blob = true
	if tp, ok := res.Type().(*types.Tuple); ok {
		for k := 0; k < tp.Len(); k++ {
			if a.pointerLike(tp.At(k).Type()) {
				a.addPts(a.tupNode(res, k, tp.At(k).Type()), a.loc(o, ""))
			}
		}
		return
	}
	a.addPts(a.v(res), a.loc(o, ""))
}

func (a *c07an) external(f *ssa.Function, name string, args []ssa.Value, res ssa.Value) {
	name = c07Short(name)
	class := c07Classify(name)
	if class == "rand" {
		// the package-level functions of math/rand work on one locked source shared by the whole process
		a.calls[c07Effect{c07Short(f.String()), "call", "rand"}] = struct{}{}
		class = "pure"
	}
	for _, arg := range args {
		if !a.pointerLike(arg.Type()) || a.v(arg) < 0 {
			continue
		}
		switch class {
		case "pure", "fresh":
		case "sync":
			a.writes = append(a.writes, c07write{f, "sync", a.v(arg), " " + name})
		default:
			a.writes = append(a.writes, c07write{f, "escape", a.v(arg), " -> " + name})
		}
	}
	if res == nil || !a.pointerLike(res.Type()) {
		return
	}
	// the result: memory the callee allocated, or (unknown callee) also what it was given
	fro := a.site(res, "result of "+name)
	if _, isTuple := res.Type().(*types.Tuple); !isTuple && !fro.blob && fro.typ == nil {
		fro.typ = c07MemType(res.Type())
	}
	if fro.typ == nil {
		fro.blob = true
	}
	frl := a.loc(fro, "")
	var outs []int32
	if tp, ok := res.Type().(*types.Tuple); ok {
		for k := 0; k < tp.Len(); k++ {
			if a.pointerLike(tp.At(k).Type()) {
				outs = append(outs, a.tupNode(res, k, tp.At(k).Type()))
			}
		}
	} else {
		outs = append(outs, a.v(res))
	}
	for _, o := range outs {
		a.addPts(o, frl)
		if class == "" || class == "sync" {
			for _, arg := range args {
				if a.pointerLike(arg.Type()) {
					a.copyEdge(a.v(arg), o)
				}
			}
		}
	}
}

// functions outside the analysed module
func c07Classify(name string) string {
	if strings.HasPrefix(name, "math/rand.") && !strings.HasPrefix(name, "math/rand.New") {
		return "rand"
	}
	for _, p := range []string{"fmt.", "strings.", "strconv.", "errors.", "(error).", "bytes.", "unicode", "math.", "math/", "reflect.DeepEqual", "(fmt.Stringer)", "time.", "(time.", "(*time.", "sort.Search", "encoding/json.Marshal", "(*strings.Builder)", "(*bytes.Buffer)", "regexp.", "(*regexp.Regexp)", "path.", "hash/", "crypto/", "encoding/hex.", "encoding/binary.", "(encoding/binary.", "github.com/pingcap/errors.", "(*github.com/pingcap/errors.",
		"(*github.com/emirpasic/gods/maps/treemap.Map).Min", "(*github.com/emirpasic/gods/maps/treemap.Map).Max", "(*github.com/emirpasic/gods/maps/treemap.Map).Ceiling", "(*github.com/emirpasic/gods/maps/treemap.Map).Floor", "(*github.com/emirpasic/gods/maps/treemap.Map).Get", "(*github.com/emirpasic/gods/maps/treemap.Map).Size"} {
		if strings.HasPrefix(name, p) {
			return "pure"
		}
	}
	if name == "(*sync.Pool).Get" {
		return "fresh"
	}
	if strings.HasPrefix(name, "(*sync.") || strings.HasPrefix(name, "sync/atomic.") || strings.HasPrefix(name, "(*sync/atomic.") || strings.HasPrefix(name, "(sync.") {
		return "sync"
	}
	return ""
}

// the functions an interface method call may reach (class hierarchy of the loaded packages)
func (a *c07an) impls(recv types.Type, m *types.Func) (in []*ssa.Function, ext bool) {
	iface, _ := recv.Underlying().(*types.Interface)
	if iface == nil {
		return nil, true
	}
	key := c07TypeStr(recv) + "." + m.Name()
	if fs, ok := a.impl[key]; ok {
		return fs, a.impl[key+"#ext"] != nil
	}
	for _, T := range a.named {
		if !types.Implements(T, iface) {
			continue
		}
		sel := a.prog.MethodSets.MethodSet(T).Lookup(m.Pkg(), m.Name())
		if sel == nil {
			continue
		}
		fn := a.prog.MethodValue(sel)
		if fn == nil {
			continue
		}
		if len(fn.Blocks) > 0 {
			in = append(in, fn)
		} else {
			ext = true
		}
	}
	if len(in) == 0 || m.Pkg() == nil || !strings.HasPrefix(m.Pkg().Path(), c07Mod) {
		ext = true
	}
	a.impl[key] = in
	if ext {
		a.impl[key+"#ext"] = []*ssa.Function{}
	}
	return in, ext
}

func (a *c07an) callees(c *ssa.CallCommon) []*ssa.Function {
	if c.IsInvoke() {
		in, _ := a.impls(c.Value.Type(), c.Method)
		return in
	}
	if _, ok := c.Value.(*ssa.Builtin); ok {
		return nil
	}
	if callee := c.StaticCallee(); callee != nil {
		if len(callee.Blocks) > 0 {
			return []*ssa.Function{callee}
		}
		return nil
	}
	return a.taken[c07SigKey(c.Value.Type())]
}

func (a *c07an) call(f *ssa.Function, c *ssa.CallCommon, res ssa.Value) {
	if c.IsInvoke() {
		args := append([]ssa.Value{c.Value}, c.Args...)
		in, ext := a.impls(c.Value.Type(), c.Method)
		for _, m := range in {
			a.bind(f, m, args, res, true)
		}
		if ext {
			a.external(f, "("+c07TypeStr(c.Value.Type())+")."+c.Method.Name(), args, res)
		}
		return
	}
	if b, ok := c.Value.(*ssa.Builtin); ok {
		switch b.Name() {
		case "append":
			// writes into the backing array of its first argument when the capacity allows
			a.writes = append(a.writes, c07write{f, "append", a.v(c.Args[0]), ""})
			a.copyEdge(a.v(c.Args[0]), a.v(res))
			a.fresh(res, "append "+c07TypeStr(res.Type()))
			if len(c.Args) > 1 {
				if sl, ok := c.Args[1].Type().Underlying().(*types.Slice); ok && a.pointerLike(sl.Elem()) {
					t1, t2, t3 := a.newNode(), a.newNode(), a.newNode()
					a.cOff(a.v(c.Args[1]), "[]", t1)
					a.cLoad(t1, t2, sl.Elem())
					a.cOff(a.v(res), "[]", t3)
					a.cStore(t3, t2, c07Aggregate(sl.Elem()))
				}
			}
		case "copy":
			a.writes = append(a.writes, c07write{f, "copy", a.v(c.Args[0]), ""})
			if sl, ok := c.Args[1].Type().Underlying().(*types.Slice); ok && a.pointerLike(sl.Elem()) {
				t1, t2, t3 := a.newNode(), a.newNode(), a.newNode()
				a.cOff(a.v(c.Args[1]), "[]", t1)
				a.cLoad(t1, t2, sl.Elem())
				a.cOff(a.v(c.Args[0]), "[]", t3)
				a.cStore(t3, t2, c07Aggregate(sl.Elem()))
			}
		case "delete", "clear":
			a.writes = append(a.writes, c07write{f, b.Name(), a.v(c.Args[0]), ""})
		case "new":
			a.fresh(res, "new")
		}
		return
	}
	if callee := c.StaticCallee(); callee != nil {
		if len(callee.Blocks) > 0 {
			if mc, ok := c.Value.(*ssa.MakeClosure); ok {
				for k, bnd := range mc.Bindings {
					if k < len(callee.FreeVars) {
						a.copyV(callee.FreeVars[k], bnd)
					}
				}
			}
			a.bind(f, callee, c.Args, res, false)
		} else {
			a.external(f, callee.String(), c.Args, res)
		}
		return
	}
	// a call through a function value
	sig := c07SigKey(c.Value.Type())
	cands := a.taken[sig]
	for _, callee := range cands {
		a.bind(f, callee, c.Args, res, false)
	}
	if len(cands) == 0 {
		a.external(f, "dynamic call "+sig, c.Args, res)
	}
}

// functions of the module that are not analysed: calling them is an effect of its own kind
func c07Opaque(f *ssa.Function) string {
	if f.Pkg == nil {
		if f.Signature.Recv() != nil {
			if n := c07NamedOf(f.Signature.Recv().Type()); n != nil && n.Obj().Pkg() != nil {
				return c07OpaquePkg(n.Obj().Pkg().Path(), n.Obj().Name())
			}
		}
		return ""
	}
	recv := ""
	if f.Signature.Recv() != nil {
		if n := c07NamedOf(f.Signature.Recv().Type()); n != nil {
			recv = n.Obj().Name()
		}
	}
	return c07OpaquePkg(f.Pkg.Pkg.Path(), recv)
}

func c07OpaquePkg(path, recv string) string {
	p := strings.TrimPrefix(path, c07Mod+"/")
	switch {
	case p == "log" || strings.HasPrefix(p, "log/"):
		return "log"
	case p == "stats" || strings.HasPrefix(p, "stats/"):
		return "stats"
	case p == "proxy/sequence" && recv == "MySQLSequence":
		return "sequence"
	}
	return ""
}

func (a *c07an) markReach(f *ssa.Function) {
	if f == nil || a.reach[f] || len(f.Blocks) == 0 || c07Opaque(f) != "" {
		return
	}
	a.reach[f] = true
	a.order = append(a.order, f)
}

func c07Analyse(repo string) (*c07Result, error) {
	prog, spkgs, err := c07Load(repo)
	if err != nil {
		return nil, err
	}
	a := &c07an{prog: prog, vals: map[ssa.Value]int32{}, tups: map[c07tupKey]int32{}, rets: map[*ssa.Function][]int32{}, locID: map[c07loc]int32{},
		reach: map[*ssa.Function]bool{}, taken: map[string][]*ssa.Function{}, plC: map[types.Type]bool{},
		sites: map[ssa.Value]*c07obj{}, syn: map[string]*c07obj{}, globals: map[*ssa.Global]*c07obj{}, impl: map[string][]*ssa.Function{}, blobs: map[string]*c07obj{}, seedC: map[types.Type][]*c07obj{}, calls: map[c07Effect]struct{}{}}
	byPath := map[string]*ssa.Package{}
	for _, p := range spkgs {
		if p == nil {
			continue
		}
		byPath[p.Pkg.Path()] = p
		for _, m := range p.Members {
			if tn, ok := m.(*ssa.Type); ok {
				if _, isIface := tn.Type().Underlying().(*types.Interface); isIface {
					continue
				}
				if n, ok := tn.Type().(*types.Named); ok && n.TypeParams().Len() > 0 {
					continue
				}
				a.named = append(a.named, tn.Type(), types.NewPointer(tn.Type()))
			}
		}
	}
	sort.Slice(a.named, func(i, j int) bool { return a.named[i].String() < a.named[j].String() })
	// address-taken functions of the module
	all := ssautil.AllFunctions(prog)
	for fn := range all {
		for _, b := range fn.Blocks {
			for _, in := range b.Instrs {
				var ops [16]*ssa.Value
				for _, op := range in.Operands(ops[:0]) {
					if op == nil || *op == nil {
						continue
					}
					var g *ssa.Function
					switch x := (*op).(type) {
					case *ssa.Function:
						if call, ok := in.(ssa.CallInstruction); ok && call.Common().Value == x {
							continue
						}
						g = x
					case *ssa.MakeClosure:
						g = x.Fn.(*ssa.Function)
					}
					if g != nil && len(g.Blocks) > 0 {
						sig := c07SigKey(g.Signature)
						dup := false
						for _, h := range a.taken[sig] {
							if h == g {
								dup = true
							}
						}
						if !dup {
							a.taken[sig] = append(a.taken[sig], g)
						}
					}
				}
			}
		}
	}
	for _, fs := range a.taken {
		sort.Slice(fs, func(i, j int) bool { return fs[i].String() < fs[j].String() })
	}
	// entry points
	var entries []string
	find := func(pkg, recv, name string) (*ssa.Function, error) {
		p := byPath[c07Mod+"/"+pkg]
		if p == nil {
			return nil, fmt.Errorf("c07: package %s not loaded", pkg)
		}
		if recv == "" {
			if fn := p.Func(name); fn != nil {
				return fn, nil
			}
			return nil, fmt.Errorf("c07: function %s.%s not found", pkg, name)
		}
		tn := p.Type(recv)
		if tn == nil {
			return nil, fmt.Errorf("c07: type %s.%s not found", pkg, recv)
		}
		fn := prog.LookupMethod(types.NewPointer(tn.Type()), p.Pkg, name)
		if fn == nil {
			return nil, fmt.Errorf("c07: method (*%s.%s).%s not found", pkg, recv, name)
		}
		return fn, nil
	}
	for _, e := range [][3]string{
		{"proxy/server", "SessionExecutor", "getPlan"},
		{"proxy/server", "SessionExecutor", "preBuildUnshardPlan"},
		{"proxy/plan", "", "BuildPlan"},
		{"proxy/plan", "", "CheckUnshardBase"},
		{"proxy/plan", "", "CheckUnshardInsert"},
		{"proxy/plan", "", "CheckUnshardUpdate"},
		{"proxy/plan", "", "MentionsShardTable"},
		{"proxy/router", "Router", "GetRule"},
		{"proxy/router", "Router", "GetShardRule"},
		{"proxy/router", "BaseRule", "GetSlice"},
		{"proxy/router", "LinkedRule", "GetSlice"},
	} {
		fn, err := find(e[0], e[1], e[2])
		if err != nil {
			return nil, err
		}
		a.markReach(fn)
		entries = append(entries, c07Short(fn.String()))
	}
	// everything a session can ask the router and its rules (the getters hand out internal slices)
	for _, tn := range [][2]string{{"proxy/router", "Router"}, {"proxy/router", "BaseRule"}, {"proxy/router", "LinkedRule"}} {
		p := byPath[c07Mod+"/"+tn[0]]
		if p == nil || p.Type(tn[1]) == nil {
			return nil, fmt.Errorf("c07: type %s.%s not found", tn[0], tn[1])
		}
		ms := prog.MethodSets.MethodSet(types.NewPointer(p.Type(tn[1]).Type()))
		for i := 0; i < ms.Len(); i++ {
			if fn := prog.MethodValue(ms.At(i)); fn != nil && fn.Synthetic == "" {
				a.markReach(fn)
			}
		}
		entries = append(entries, "every method of "+tn[0]+"."+tn[1])
	}
	// 1. the functions planning can reach (static calls, interface calls by class hierarchy,
	// calls of function values by signature among the address-taken functions)
	for k := 0; k < len(a.order); k++ {
		for _, b := range a.order[k].Blocks {
			for _, in := range b.Instrs {
				switch i := in.(type) {
				case ssa.CallInstruction:
					for _, g := range a.callees(i.Common()) {
						a.markReach(g)
					}
				case *ssa.MakeClosure:
					a.markReach(i.Fn.(*ssa.Function))
				}
			}
		}
	}
	// 2. inclusion constraints, 3. solution
	for _, f := range a.order {
		a.gen(f)
		a.solve()
	}
	a.solve()
	// 4. objects stored into shared memory are shared from then on
	for changed := true; changed; {
		changed = false
		for l, lc := range a.locs {
			if !(lc.o.shared || lc.o.published) || a.cont[l] < 0 {
				continue
			}
			for t := range a.nodes[a.cont[l]].pts {
				o := a.locs[t].o
				if !o.shared && !o.published {
					o.published = true
					changed = true
				}
			}
		}
	}
	effects := map[c07Effect]struct{}{}
	for _, w := range a.writes {
		if w.addr < 0 {
			continue
		}
		for l := range a.nodes[w.addr].pts {
			o := a.locs[l].o
			// (writes to the parser's trees after one of them was published are not listed
			// one by one: the store that published it is)
			if o.shared || (o.published && !o.blob) {
				effects[c07Effect{c07Short(w.fn.String()), w.kind, a.describe(l) + w.note}] = struct{}{}
			}
		}
	}
	res := &c07Result{Reachable: len(a.order), Entries: entries}
	for e := range a.calls {
		effects[e] = struct{}{}
	}
	for e := range effects {
		res.Effects = append(res.Effects, e)
	}
	sort.Slice(res.Effects, func(i, j int) bool {
		x, y := res.Effects[i], res.Effects[j]
		if x.Fn != y.Fn {
			return x.Fn < y.Fn
		}
		if x.Kind != y.Kind {
			return x.Kind < y.Kind
		}
		return x.Target < y.Target
	})
	for _, fn := range a.order {
		if fn.Signature.Recv() == nil || fn.Synthetic != "" {
			continue
		}
		n := c07NamedOf(fn.Signature.Recv().Type())
		if n == nil || n.Obj().Pkg() == nil {
			continue
		}
		if !c07SharedNamed(n.Obj().Pkg().Path(), n.Obj().Name()) {
			continue
		}
		for k, rn := range a.retNodes(fn) {
			switch fn.Signature.Results().At(k).Type().Underlying().(type) {
			case *types.Slice, *types.Map:
				var xs []string
				for l := range a.nodes[rn].pts {
					if o := a.locs[l].o; o.shared || o.published {
						xs = append(xs, a.describe(l))
					}
				}
				sort.Strings(xs)
				if len(xs) > 0 {
					res.Getters = append(res.Getters, [2]string{c07Short(fn.String()), strings.Join(xs, ",")})
				}
			}
		}
	}
	sort.Slice(res.Getters, func(i, j int) bool { return res.Getters[i][0] < res.Getters[j][0] })
	return res, nil
}
