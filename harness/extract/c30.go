package extract

import (
	"fmt"
	"go/ast"
	"go/parser"
	"go/token"
	"path/filepath"
	"strconv"
)

// C30: the constants the method selection of the handshake depends on, read
// from the source on every run; Props/C30.lean states that the model uses the
// same values (theorem consts_match_source).
//
//	mysql/constants.go       CachingSHA2Password = "caching_sha2_password"
//	proxy/server/session.go  handleHandshakeResponse: len(info.AuthResponse) == 32
//	proxy/server/manager.go  UserManager.CheckHashPassword:
//	                         strings.HasPrefix(password, "*") && len(password) == 41
//	                         isStoredHashPassword: the same two tests (and hex.DecodeString);
//	                         whether CheckPassword / CheckSha2Password call it

func init() { register(extractC30) }

func c30ParseFile(repo, rel string) (*ast.File, error) {
	fset := token.NewFileSet()
	f, err := parser.ParseFile(fset, filepath.Join(repo, rel), nil, 0)
	if err != nil {
		return nil, fmt.Errorf("C30: cannot parse %s: %v", rel, err)
	}
	return f, nil
}

func c30FuncDecl(f *ast.File, recv, name string) *ast.FuncDecl {
	for _, d := range f.Decls {
		fd, ok := d.(*ast.FuncDecl)
		if !ok || fd.Name.Name != name {
			continue
		}
		r := ""
		if fd.Recv != nil && len(fd.Recv.List) == 1 {
			t := fd.Recv.List[0].Type
			if st, ok := t.(*ast.StarExpr); ok {
				t = st.X
			}
			if id, ok := t.(*ast.Ident); ok {
				r = id.Name
			}
		}
		if r == recv {
			return fd
		}
	}
	return nil
}

// c30LenEq collects the integer literals N of the comparisons `len(<expr>) == N`
// inside a function body.
func c30LenEq(fd *ast.FuncDecl) []int {
	var out []int
	ast.Inspect(fd.Body, func(n ast.Node) bool {
		be, ok := n.(*ast.BinaryExpr)
		if !ok || be.Op != token.EQL {
			return true
		}
		call, ok := be.X.(*ast.CallExpr)
		if !ok {
			return true
		}
		if id, ok := call.Fun.(*ast.Ident); !ok || id.Name != "len" {
			return true
		}
		if lit, ok := be.Y.(*ast.BasicLit); ok && lit.Kind == token.INT {
			if v, err := strconv.Atoi(lit.Value); err == nil {
				out = append(out, v)
			}
		}
		return true
	})
	return out
}

func extractC30(repo string) ([]fact, error) {
	var facts []fact

	// the plugin name constant
	cf, err := c30ParseFile(repo, "mysql/constants.go")
	if err != nil {
		return nil, err
	}
	plugin := ""
	found := false
	for _, d := range cf.Decls {
		gd, ok := d.(*ast.GenDecl)
		if !ok || gd.Tok != token.CONST {
			continue
		}
		for _, sp := range gd.Specs {
			vs := sp.(*ast.ValueSpec)
			for i, n := range vs.Names {
				if n.Name == "CachingSHA2Password" && i < len(vs.Values) {
					if lit, ok := vs.Values[i].(*ast.BasicLit); ok && lit.Kind == token.STRING {
						if s, err := strconv.Unquote(lit.Value); err == nil {
							plugin, found = s, true
						}
					}
				}
			}
		}
	}
	if !found {
		return nil, fmt.Errorf("C30: constant CachingSHA2Password (string literal) not found in mysql/constants.go")
	}
	facts = append(facts, fact{name: "c30CachingSHA2Password", typ: "String", val: strconv.Quote(plugin),
		doc: "mysql.CachingSHA2Password (mysql/constants.go)"})

	// the response length that selects the sha2 check when no plugin is named
	sf, err := c30ParseFile(repo, "proxy/server/session.go")
	if err != nil {
		return nil, err
	}
	hh := c30FuncDecl(sf, "Session", "handleHandshakeResponse")
	if hh == nil {
		return nil, fmt.Errorf("C30: func (*Session) handleHandshakeResponse not found in proxy/server/session.go")
	}
	var nonzero []int
	for _, v := range c30LenEq(hh) {
		if v != 0 {
			nonzero = append(nonzero, v)
		}
	}
	if len(nonzero) != 1 {
		return nil, fmt.Errorf("C30: expected exactly one comparison len(…) == N (N != 0) in handleHandshakeResponse, found %v", nonzero)
	}
	facts = append(facts, fact{name: "c30Sha2ResponseLen", typ: "Nat", val: strconv.Itoa(nonzero[0]),
		doc: "N of `len(info.AuthResponse) == N` in Session.handleHandshakeResponse"})

	// the shape of a stored-hash entry
	mf, err := c30ParseFile(repo, "proxy/server/manager.go")
	if err != nil {
		return nil, err
	}
	ch := c30FuncDecl(mf, "UserManager", "CheckHashPassword")
	if ch == nil {
		return nil, fmt.Errorf("C30: func (*UserManager) CheckHashPassword not found in proxy/server/manager.go")
	}
	lens := c30LenEq(ch)
	if len(lens) != 1 {
		return nil, fmt.Errorf("C30: expected exactly one comparison len(password) == N in UserManager.CheckHashPassword, found %v", lens)
	}
	prefix, nprefix := "", 0
	ast.Inspect(ch.Body, func(n ast.Node) bool {
		call, ok := n.(*ast.CallExpr)
		if !ok || len(call.Args) != 2 {
			return true
		}
		sel, ok := call.Fun.(*ast.SelectorExpr)
		if !ok || sel.Sel.Name != "HasPrefix" {
			return true
		}
		if lit, ok := call.Args[1].(*ast.BasicLit); ok && lit.Kind == token.STRING {
			if s, err := strconv.Unquote(lit.Value); err == nil {
				prefix = s
				nprefix++
			}
		}
		return true
	})
	if nprefix != 1 {
		return nil, fmt.Errorf("C30: expected exactly one strings.HasPrefix(password, \"…\") in UserManager.CheckHashPassword, found %d", nprefix)
	}
	// the predicate the clear-text loops skip entries with
	sh := c30FuncDecl(mf, "", "isStoredHashPassword")
	if sh == nil {
		return nil, fmt.Errorf("C30: func isStoredHashPassword not found in proxy/server/manager.go")
	}
	shLens := c30LenEq(sh)
	if len(shLens) != 1 {
		return nil, fmt.Errorf("C30: expected exactly one comparison len(password) == N in isStoredHashPassword, found %v", shLens)
	}
	shPrefix, shN, shHex := "", 0, 0
	ast.Inspect(sh.Body, func(n ast.Node) bool {
		call, ok := n.(*ast.CallExpr)
		if !ok {
			return true
		}
		sel, ok := call.Fun.(*ast.SelectorExpr)
		if !ok {
			return true
		}
		if sel.Sel.Name == "DecodeString" {
			shHex++
		}
		if sel.Sel.Name == "HasPrefix" && len(call.Args) == 2 {
			if lit, ok := call.Args[1].(*ast.BasicLit); ok && lit.Kind == token.STRING {
				if s, err := strconv.Unquote(lit.Value); err == nil {
					shPrefix = s
					shN++
				}
			}
		}
		return true
	})
	if shN != 1 || shHex != 1 {
		return nil, fmt.Errorf("C30: expected one strings.HasPrefix(password, \"…\") and one hex.DecodeString in isStoredHashPassword, found %d and %d", shN, shHex)
	}
	callsPredicate := func(name string) (string, error) {
		fd := c30FuncDecl(mf, "UserManager", name)
		if fd == nil {
			return "", fmt.Errorf("C30: func (*UserManager) %s not found in proxy/server/manager.go", name)
		}
		found := false
		ast.Inspect(fd.Body, func(n ast.Node) bool {
			if call, ok := n.(*ast.CallExpr); ok {
				if id, ok := call.Fun.(*ast.Ident); ok && id.Name == "isStoredHashPassword" {
					found = true
				}
			}
			return true
		})
		return strconv.FormatBool(found), nil
	}
	clearSkips, err := callsPredicate("CheckPassword")
	if err != nil {
		return nil, err
	}
	sha2Skips, err := callsPredicate("CheckSha2Password")
	if err != nil {
		return nil, err
	}
	facts = append(facts,
		fact{name: "c30StoredHashLen", typ: "Nat", val: strconv.Itoa(shLens[0]),
			doc: "N of `len(password) == N` in isStoredHashPassword"},
		fact{name: "c30StoredHashPrefix", typ: "String", val: strconv.Quote(shPrefix),
			doc: "prefix tested by strings.HasPrefix in isStoredHashPassword"},
		fact{name: "c30CheckPasswordCallsStoredHash", typ: "Bool", val: clearSkips,
			doc: "UserManager.CheckPassword calls isStoredHashPassword"},
		fact{name: "c30CheckSha2PasswordCallsStoredHash", typ: "Bool", val: sha2Skips,
			doc: "UserManager.CheckSha2Password calls isStoredHashPassword"})
	facts = append(facts,
		fact{name: "c30HashedPasswordLen", typ: "Nat", val: strconv.Itoa(lens[0]),
			doc: "N of `len(password) == N` in UserManager.CheckHashPassword"},
		fact{name: "c30HashedPasswordPrefix", typ: "String", val: strconv.Quote(prefix),
			doc: "prefix tested by strings.HasPrefix in UserManager.CheckHashPassword"})
	return facts, nil
}
