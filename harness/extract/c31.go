package extract

import (
	"fmt"
	"go/ast"
	"go/parser"
	"go/token"
	"path/filepath"
)

// C31: the model of the reload manager takes one whole operation as one step.
// That is justified by the source only if ReloadNamespacePrepare,
// ReloadNamespaceCommit and DeleteNamespace each start with
//
//	m.reloadMu.Lock()
//	defer m.reloadMu.Unlock()
//
// on the same mutex field of Manager. The fact is extracted on every run and
// Props/C31.lean proves it is `true`.

func init() {
	register(func(repo string) ([]fact, error) {
		file := filepath.Join(repo, "proxy", "server", "manager.go")
		fset := token.NewFileSet()
		f, err := parser.ParseFile(fset, file, nil, 0)
		if err != nil {
			return nil, fmt.Errorf("C31: %v", err)
		}
		// selector chain of a call `recv.field.method()`
		call := func(e ast.Expr) (recv, field, method string, ok bool) {
			c, isCall := e.(*ast.CallExpr)
			if !isCall || len(c.Args) != 0 {
				return
			}
			s1, isSel := c.Fun.(*ast.SelectorExpr)
			if !isSel {
				return
			}
			s2, isSel := s1.X.(*ast.SelectorExpr)
			if !isSel {
				return
			}
			id, isID := s2.X.(*ast.Ident)
			if !isID {
				return
			}
			return id.Name, s2.Sel.Name, s1.Sel.Name, true
		}
		want := map[string]bool{"ReloadNamespacePrepare": false, "ReloadNamespaceCommit": false, "DeleteNamespace": false}
		found := map[string]bool{}
		mutex := ""
		for _, d := range f.Decls {
			fd, ok := d.(*ast.FuncDecl)
			if !ok || fd.Recv == nil || len(fd.Recv.List) != 1 || fd.Body == nil {
				continue
			}
			if _, wanted := want[fd.Name.Name]; !wanted {
				continue
			}
			star, ok := fd.Recv.List[0].Type.(*ast.StarExpr)
			if !ok {
				continue
			}
			if id, ok := star.X.(*ast.Ident); !ok || id.Name != "Manager" {
				continue
			}
			found[fd.Name.Name] = true
			if len(fd.Recv.List[0].Names) != 1 || len(fd.Body.List) < 2 {
				continue
			}
			recvName := fd.Recv.List[0].Names[0].Name
			es, ok1 := fd.Body.List[0].(*ast.ExprStmt)
			ds, ok2 := fd.Body.List[1].(*ast.DeferStmt)
			if !ok1 || !ok2 {
				continue
			}
			r1, f1, m1, okA := call(es.X)
			r2, f2, m2, okB := call(ds.Call)
			if !okA || !okB || r1 != recvName || r2 != recvName || f1 != f2 || m1 != "Lock" || m2 != "Unlock" {
				continue
			}
			if mutex == "" {
				mutex = f1
			}
			if f1 == mutex {
				want[fd.Name.Name] = true
			}
		}
		for name := range want {
			if !found[name] {
				return nil, fmt.Errorf("C31: method (*Manager).%s not found in %s", name, file)
			}
		}
		all := want["ReloadNamespacePrepare"] && want["ReloadNamespaceCommit"] && want["DeleteNamespace"]
		// the mutex must be a sync.Mutex field of Manager
		isMutexField := false
		ast.Inspect(f, func(n ast.Node) bool {
			ts, ok := n.(*ast.TypeSpec)
			if !ok || ts.Name.Name != "Manager" {
				return true
			}
			st, ok := ts.Type.(*ast.StructType)
			if !ok {
				return false
			}
			for _, fl := range st.Fields.List {
				sel, ok := fl.Type.(*ast.SelectorExpr)
				if !ok || sel.Sel.Name != "Mutex" {
					continue
				}
				if pkg, ok := sel.X.(*ast.Ident); !ok || pkg.Name != "sync" {
					continue
				}
				for _, nm := range fl.Names {
					if nm.Name == mutex {
						isMutexField = true
					}
				}
			}
			return false
		})
		val := "false"
		if all && isMutexField {
			val = "true"
		}
		return []fact{{name: "mgrReloadOpsSerialised", typ: "Bool", val: val,
			doc: "ReloadNamespacePrepare, ReloadNamespaceCommit and DeleteNamespace of proxy/server/manager.go each begin with Lock / defer Unlock of one sync.Mutex field of Manager"}}, nil
	})
}
