package extract

import (
	"fmt"
	"go/ast"
	"go/token"
	"path/filepath"
	"sort"
	"strings"
)

// C39 / C38: the column definitions of a pooled mysql.Result.
//
// ClientConn.writeOKResultStream keeps `globalFields := rs.Resultset.Fields`
// across `rs.Free()` (writeOKResult's deferred Free) and hands it to every
// following chunk; mysql.ResultPool gives the same *Result to the next
// caller, and Result.Reset only truncates Fields (`Fields[:0]`): the slice the
// next user sees still points to the array globalFields points to.  What keeps
// the streaming session's columns intact is that nobody ever writes into that
// array: every function that stores an element of a `Fields` slice (index
// assignment, or append onto the slice itself) has made the slice itself in
// the same function (`X.Fields = make(…)`, or X is a Resultset it has just
// allocated).  This extractor checks exactly that for the packages that
// handle results; the violations (expected: none) become
//
//	c39FieldsWrittenInPlace : List String
//
// and the places it looked at
//
//	c39FieldsWriters : List String
//
// (`stmt.Fields.Fields` of the parser's AST is not a result's column list and
// is skipped.)

// index of the parameter called name, or -1
func c39ParamIndex(fd *ast.FuncDecl, name string) int {
	k := 0
	for _, fl := range fd.Type.Params.List {
		for _, n := range fl.Names {
			if n.Name == name {
				return k
			}
			k++
		}
		if len(fl.Names) == 0 {
			k++
		}
	}
	return -1
}

// does fn assign `owner.Fields = make(…)`?
func c39MakesFields(fset *token.FileSet, fn *ast.FuncDecl, owner string) bool {
	found := false
	ast.Inspect(fn.Body, func(n ast.Node) bool {
		as, ok := n.(*ast.AssignStmt)
		if !ok || len(as.Lhs) != len(as.Rhs) {
			return true
		}
		for i, l := range as.Lhs {
			if sel, ok := l.(*ast.SelectorExpr); ok && sel.Sel.Name == "Fields" && c38ownSrc(fset, sel.X) == owner &&
				strings.HasPrefix(c38ownSrc(fset, as.Rhs[i]), "make(") {
				found = true
			}
		}
		return true
	})
	return found
}

func init() {
	register(func(repo string) ([]fact, error) {
		fset := token.NewFileSet()
		var bad, seen []string
		for _, dir := range []string{"mysql", "backend", "proxy/server", "proxy/plan"} {
			files, err := c07ParseDir(fset, filepath.Join(repo, dir))
			if err != nil {
				return nil, err
			}
			for _, f := range files {
				base := filepath.Base(fset.Position(f.Pos()).Filename)
				for _, d := range f.Decls {
					fd, ok := d.(*ast.FuncDecl)
					if !ok || fd.Body == nil {
						continue
					}
					// the owners X of `X.Fields` that this function makes itself
					fresh := map[string]bool{}
					ast.Inspect(fd.Body, func(n ast.Node) bool {
						as, ok := n.(*ast.AssignStmt)
						if !ok || len(as.Lhs) != len(as.Rhs) {
							return true
						}
						for i, l := range as.Lhs {
							r := c38ownSrc(fset, as.Rhs[i])
							if sel, ok := l.(*ast.SelectorExpr); ok && sel.Sel.Name == "Fields" && strings.HasPrefix(r, "make(") {
								fresh[c38ownSrc(fset, sel.X)] = true
							}
							if id, ok := l.(*ast.Ident); ok && (strings.HasPrefix(r, "new(Resultset)") || strings.HasPrefix(r, "new(mysql.Resultset)") ||
								strings.HasPrefix(r, "&Resultset{") || strings.HasPrefix(r, "&mysql.Resultset{")) {
								fresh[id.Name] = true
							}
						}
						return true
					})
					ast.Inspect(fd.Body, func(n ast.Node) bool {
						as, ok := n.(*ast.AssignStmt)
						if !ok {
							return true
						}
						for i, l := range as.Lhs {
							var owner ast.Expr
							if ix, ok := l.(*ast.IndexExpr); ok {
								if sel, ok := ix.X.(*ast.SelectorExpr); ok && sel.Sel.Name == "Fields" {
									owner = sel.X
								}
							}
							if sel, ok := l.(*ast.SelectorExpr); ok && sel.Sel.Name == "Fields" && i < len(as.Rhs) {
								if call, ok := as.Rhs[i].(*ast.CallExpr); ok && c38ownSrc(fset, call.Fun) == "append" && len(call.Args) > 0 &&
									c38ownSrc(fset, call.Args[0]) == c38ownSrc(fset, sel) {
									owner = sel.X
								}
							}
							if owner == nil {
								continue
							}
							if inner, ok := owner.(*ast.SelectorExpr); ok && inner.Sel.Name == "Fields" {
								continue // stmt.Fields.Fields: the parser's field list
							}
							where := fmt.Sprintf("%s/%s:%s: %s", dir, base, c38FuncName(fd), c38ownSrc(fset, as))
							seen = append(seen, fmt.Sprintf("%q", where))
							if fresh[c38ownSrc(fset, owner)] {
								continue
							}
							// the slice of a parameter: every caller in the package must have made it
							if k := c39ParamIndex(fd, c38ownSrc(fset, owner)); k >= 0 {
								calls, ok := 0, true
								for _, g := range files {
									for _, d2 := range g.Decls {
										caller, isFn := d2.(*ast.FuncDecl)
										if !isFn || caller.Body == nil {
											continue
										}
										ast.Inspect(caller.Body, func(m ast.Node) bool {
											call, isCall := m.(*ast.CallExpr)
											if !isCall || len(call.Args) <= k {
												return true
											}
											name := ""
											switch fn := call.Fun.(type) {
											case *ast.Ident:
												name = fn.Name
											case *ast.SelectorExpr:
												name = fn.Sel.Name
											}
											if name != fd.Name.Name {
												return true
											}
											calls++
											if !c39MakesFields(fset, caller, c38ownSrc(fset, call.Args[k])) {
												ok = false
											}
											return true
										})
									}
								}
								if calls > 0 && ok {
									continue
								}
							}
							bad = append(bad, fmt.Sprintf("%q", where))
						}
						return true
					})
				}
			}
		}
		if len(seen) == 0 {
			return nil, fmt.Errorf("c39fields: no function storing an element of a Fields slice was found (pattern lost)")
		}
		// the place that relies on it
		srv, err := c07ParseDir(fset, filepath.Join(repo, "proxy", "server"))
		if err != nil {
			return nil, err
		}
		st := c38FindFunc(srv, "ClientConn.writeOKResultStream")
		if st == nil || !strings.Contains(c38ownSrc(fset, st.Body), "globalFields = rs.Resultset.Fields") ||
			!strings.Contains(c38ownSrc(fset, st.Body), "Fields: globalFields") {
			return nil, fmt.Errorf("c39fields: writeOKResultStream no longer keeps globalFields = rs.Resultset.Fields for the following chunks")
		}
		my, err := c07ParseDir(fset, filepath.Join(repo, "mysql"))
		if err != nil {
			return nil, err
		}
		rst := c38FindFunc(my, "Result.Reset")
		if rst == nil || !strings.Contains(c38ownSrc(fset, rst.Body), "r.Resultset.Fields = r.Resultset.Fields[:0]") {
			return nil, fmt.Errorf("c39fields: Result.Reset no longer truncates Fields in place")
		}
		sort.Strings(bad)
		sort.Strings(seen)
		return []fact{
			{name: "c39FieldsWrittenInPlace", typ: "List String", val: "[" + strings.Join(bad, ", ") + "]",
				doc: "C39: functions of mysql, backend, proxy/server, proxy/plan that store an element of a Fields slice they have not made themselves (writeOKResultStream's globalFields survives rs.Free() only if there is none)"},
			{name: "c39FieldsWriters", typ: "List String", val: "[" + strings.Join(seen, ", ") + "]",
				doc: "C39: every statement that stores an element of a Fields slice of a result"},
		}, nil
	})
}
