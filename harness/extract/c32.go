package extract

import (
	"fmt"
	"go/ast"
	"go/parser"
	"go/token"
	"path/filepath"
	"strconv"
)

// C32: the retry counts of the two-phase exchange in cc/service/service.go.
// The model (Model/MgrTwoPhase.lean) fixes them; Props/C32.lean proves the
// model's values equal the extracted ones, so changing a constant in the
// source breaks that proof.

func init() {
	register(func(repo string) ([]fact, error) {
		file := filepath.Join(repo, "cc", "service", "service.go")
		fset := token.NewFileSet()
		f, err := parser.ParseFile(fset, file, nil, 0)
		if err != nil {
			return nil, fmt.Errorf("C32: %v", err)
		}
		want := map[string]string{"PREPARE_RETRY_TIMES": "ccPrepareRetryTimes", "COMMIT_RETRY_TIMES": "ccCommitRetryTimes"}
		var facts []fact
		for _, d := range f.Decls {
			gd, ok := d.(*ast.GenDecl)
			if !ok || gd.Tok != token.CONST {
				continue
			}
			for _, sp := range gd.Specs {
				vs := sp.(*ast.ValueSpec)
				for i, id := range vs.Names {
					lean, ok := want[id.Name]
					if !ok || i >= len(vs.Values) {
						continue
					}
					lit, ok := vs.Values[i].(*ast.BasicLit)
					if !ok || lit.Kind != token.INT {
						return nil, fmt.Errorf("C32: %s in %s is not an integer literal", id.Name, file)
					}
					n, err := strconv.ParseUint(lit.Value, 0, 32)
					if err != nil {
						return nil, fmt.Errorf("C32: %s: %v", id.Name, err)
					}
					facts = append(facts, fact{name: lean, typ: "Nat", val: strconv.FormatUint(n, 10),
						doc: id.Name + " of cc/service/service.go"})
					delete(want, id.Name)
				}
			}
		}
		for k := range want {
			return nil, fmt.Errorf("C32: constant %s not found in %s", k, file)
		}
		// the loops that use them: `for i := 0; i < X; i++` must still exist in ModifyNamespace
		uses := map[string]bool{}
		ast.Inspect(f, func(n ast.Node) bool {
			if fs, ok := n.(*ast.ForStmt); ok {
				if be, ok := fs.Cond.(*ast.BinaryExpr); ok && be.Op == token.LSS {
					if id, ok := be.Y.(*ast.Ident); ok {
						uses[id.Name] = true
					}
				}
			}
			return true
		})
		for _, k := range []string{"PREPARE_RETRY_TIMES", "COMMIT_RETRY_TIMES"} {
			if !uses[k] {
				return nil, fmt.Errorf("C32: no loop `i < %s` found in %s", k, file)
			}
		}
		return facts, nil
	})
}
