package extract

// C39: the size threshold after which DirectConnection.readResultRows stops
// and leaves the remaining rows pending (mysql/constants.go: MaxPayloadLen).

func init() {
	register(func(repo string) ([]fact, error) {
		v, err := pktConstInt(repo, "mysql/constants.go", "MaxPayloadLen")
		if err != nil {
			return nil, err
		}
		return []fact{{name: "maxPayloadLen", typ: "Nat", val: v, doc: "mysql/constants.go: MaxPayloadLen, the number of row bytes after which readResultRows breaks off with moreRowExists = true"}}, nil
	})
}
