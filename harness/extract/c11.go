package extract

import (
	"fmt"
	"go/ast"
	"go/constant"
	"go/parser"
	"go/token"
	"path/filepath"
)

// C11: the frame limit of mysql/conn.go.  The theorems of Props/C11.lean are
// proved for every limit and then instantiated at this constant
// (`frame_limit_is_protocol_limit` needs it to be exactly 2^24-1, the largest
// value of the 3-byte length field).

// pktConstInt evaluates the integer constant `name` declared in a const or
// var block of file (literals, parentheses, unary and binary operators only).
func pktConstInt(repo, file, name string) (string, error) {
	fset := token.NewFileSet()
	f, err := parser.ParseFile(fset, filepath.Join(repo, file), nil, 0)
	if err != nil {
		return "", err
	}
	var eval func(e ast.Expr) (constant.Value, error)
	eval = func(e ast.Expr) (constant.Value, error) {
		switch x := e.(type) {
		case *ast.BasicLit:
			v := constant.MakeFromLiteral(x.Value, x.Kind, 0)
			if v.Kind() != constant.Int {
				return nil, fmt.Errorf("not an integer literal: %s", x.Value)
			}
			return v, nil
		case *ast.ParenExpr:
			return eval(x.X)
		case *ast.UnaryExpr:
			v, err := eval(x.X)
			if err != nil {
				return nil, err
			}
			return constant.UnaryOp(x.Op, v, 0), nil
		case *ast.BinaryExpr:
			a, err := eval(x.X)
			if err != nil {
				return nil, err
			}
			b, err := eval(x.Y)
			if err != nil {
				return nil, err
			}
			if x.Op == token.SHL || x.Op == token.SHR {
				n, ok := constant.Uint64Val(b)
				if !ok {
					return nil, fmt.Errorf("bad shift count")
				}
				return constant.Shift(a, x.Op, uint(n)), nil
			}
			if x.Op == token.QUO {
				return constant.BinaryOp(a, token.QUO_ASSIGN, b), nil // integer division
			}
			return constant.BinaryOp(a, x.Op, b), nil
		}
		return nil, fmt.Errorf("unsupported constant expression for %s", name)
	}
	for _, d := range f.Decls {
		gd, ok := d.(*ast.GenDecl)
		if !ok || (gd.Tok != token.CONST && gd.Tok != token.VAR) {
			continue
		}
		for _, sp := range gd.Specs {
			vs := sp.(*ast.ValueSpec)
			for i, n := range vs.Names {
				if n.Name != name {
					continue
				}
				if i >= len(vs.Values) {
					return "", fmt.Errorf("%s: %s has no initialiser", file, name)
				}
				v, err := eval(vs.Values[i])
				if err != nil {
					return "", fmt.Errorf("%s: %s: %v", file, name, err)
				}
				if v.Kind() != constant.Int || constant.Sign(v) < 0 {
					return "", fmt.Errorf("%s: %s is not a non-negative integer", file, name)
				}
				return v.ExactString(), nil
			}
		}
	}
	return "", fmt.Errorf("%s: constant %s not found", file, name)
}

func init() {
	register(func(repo string) ([]fact, error) {
		v, err := pktConstInt(repo, "mysql/conn.go", "MaxPacketSize")
		if err != nil {
			return nil, err
		}
		return []fact{{name: "maxPacketSize", typ: "Nat", val: v, doc: "mysql/conn.go: MaxPacketSize, the largest frame body WritePacket emits and the continuation threshold of the readers"}}, nil
	})
}
