package extract

import (
	"fmt"
	"go/ast"
	"go/parser"
	"go/token"
	"path/filepath"
	"strconv"
	"strings"
	"unicode"
)

// C21: the statement-kind constants and the three keyword switches of
// parser.Preview, the kinds isSQLNotAllowedByUser rejects, the structure of
// the entry paths (the check is the first statement of doQuery, doMultiStmts
// and handleStmtExecute reach the backend only through doQuery), and the two
// facts about Go's unicode tables the model of Preview relies on.

func init() { register(extractC21) }

func c21Runes(s string) string {
	var xs []string
	for _, r := range s {
		xs = append(xs, strconv.Itoa(int(r)))
	}
	return "[" + strings.Join(xs, ", ") + "]"
}

func c21FindFunc(f *ast.File, name string) *ast.FuncDecl {
	for _, d := range f.Decls {
		if fd, ok := d.(*ast.FuncDecl); ok && fd.Name.Name == name {
			return fd
		}
	}
	return nil
}

func c21ExprString(e ast.Expr) string {
	switch x := e.(type) {
	case *ast.Ident:
		return x.Name
	case *ast.SelectorExpr:
		return c21ExprString(x.X) + "." + x.Sel.Name
	case *ast.CallExpr:
		var as []string
		for _, a := range x.Args {
			as = append(as, c21ExprString(a))
		}
		return c21ExprString(x.Fun) + "(" + strings.Join(as, ",") + ")"
	case *ast.BasicLit:
		return x.Value
	case *ast.StarExpr:
		return "*" + c21ExprString(x.X)
	case *ast.ParenExpr:
		return "(" + c21ExprString(x.X) + ")"
	case *ast.BinaryExpr:
		return c21ExprString(x.X) + x.Op.String() + c21ExprString(x.Y)
	case *ast.UnaryExpr:
		return x.Op.String() + c21ExprString(x.X)
	case *ast.IndexExpr:
		return c21ExprString(x.X) + "[" + c21ExprString(x.Index) + "]"
	}
	return fmt.Sprintf("<%T>", e)
}

func extractC21(repo string) ([]fact, error) {
	fset := token.NewFileSet()
	af, err := parser.ParseFile(fset, filepath.Join(repo, "parser", "analyzer.go"), nil, 0)
	if err != nil {
		return nil, err
	}
	// 1. the iota block that starts with StmtSelect
	kinds := map[string]int{}
	var kindNames []string
	for _, d := range af.Decls {
		gd, ok := d.(*ast.GenDecl)
		if !ok || gd.Tok != token.CONST || len(gd.Specs) == 0 {
			continue
		}
		vs := gd.Specs[0].(*ast.ValueSpec)
		if vs.Names[0].Name != "StmtSelect" {
			continue
		}
		if len(vs.Values) != 1 || c21ExprString(vs.Values[0]) != "iota" {
			return nil, fmt.Errorf("C21: StmtSelect is not = iota")
		}
		for i, s := range gd.Specs {
			v := s.(*ast.ValueSpec)
			if len(v.Names) != 1 || (i > 0 && len(v.Values) != 0) {
				return nil, fmt.Errorf("C21: unexpected shape of the Stmt* const block")
			}
			kinds[v.Names[0].Name] = i
			kindNames = append(kindNames, v.Names[0].Name)
		}
	}
	if len(kinds) == 0 {
		return nil, fmt.Errorf("C21: const block of statement kinds not found in parser/analyzer.go")
	}
	// 2. the three switches of Preview
	pv := c21FindFunc(af, "Preview")
	if pv == nil {
		return nil, fmt.Errorf("C21: parser.Preview not found")
	}
	var switches []*ast.SwitchStmt
	for _, st := range pv.Body.List {
		if sw, ok := st.(*ast.SwitchStmt); ok {
			switches = append(switches, sw)
		}
	}
	if len(switches) != 3 {
		return nil, fmt.Errorf("C21: Preview has %d top-level switches, expected 3", len(switches))
	}
	wantTags := []string{"loweredFirstWord", "strings.ToLower(trimmedNoComments)", "loweredFirstWord"}
	var tables [3]string
	for i, sw := range switches {
		if c21ExprString(sw.Tag) != wantTags[i] {
			return nil, fmt.Errorf("C21: switch %d of Preview is on %s, expected %s", i+1, c21ExprString(sw.Tag), wantTags[i])
		}
		var entries []string
		for _, c := range sw.Body.List {
			cc := c.(*ast.CaseClause)
			if cc.List == nil || len(cc.Body) != 1 {
				return nil, fmt.Errorf("C21: unexpected case clause in switch %d of Preview", i+1)
			}
			ret, ok := cc.Body[0].(*ast.ReturnStmt)
			if !ok || len(ret.Results) != 1 {
				return nil, fmt.Errorf("C21: case body in switch %d of Preview is not a single return", i+1)
			}
			k, ok := kinds[c21ExprString(ret.Results[0])]
			if !ok {
				return nil, fmt.Errorf("C21: unknown kind %s", c21ExprString(ret.Results[0]))
			}
			for _, e := range cc.List {
				bl, ok := e.(*ast.BasicLit)
				if !ok || bl.Kind != token.STRING {
					return nil, fmt.Errorf("C21: non-literal case in switch %d of Preview", i+1)
				}
				w, err := strconv.Unquote(bl.Value)
				if err != nil {
					return nil, err
				}
				entries = append(entries, fmt.Sprintf("(%s, %d)", c21Runes(w), k))
			}
		}
		tables[i] = "[" + strings.Join(entries, ", ") + "]"
	}
	last := pv.Body.List[len(pv.Body.List)-1]
	if ret, ok := last.(*ast.ReturnStmt); !ok || len(ret.Results) != 1 || c21ExprString(ret.Results[0]) != "StmtUnknown" {
		return nil, fmt.Errorf("C21: Preview does not end with return StmtUnknown")
	}
	var kindList []string
	for _, n := range kindNames {
		kindList = append(kindList, fmt.Sprintf("(%q, %d)", n, kinds[n]))
	}
	facts := []fact{
		{"c21StmtKinds", "List (String × Nat)", "[" + strings.Join(kindList, ", ") + "]", "the Stmt* constants of parser/analyzer.go"},
		{"c21Switch1", "List (List Nat × Nat)", tables[0], "Preview: first switch on loweredFirstWord (keyword code points, kind)"},
		{"c21Switch2", "List (List Nat × Nat)", tables[1], "Preview: switch on strings.ToLower(trimmedNoComments)"},
		{"c21Switch3", "List (List Nat × Nat)", tables[2], "Preview: second switch on loweredFirstWord"},
		{"c21StmtUnknown", "Nat", strconv.Itoa(kinds["StmtUnknown"]), ""},
		{"c21StmtComment", "Nat", strconv.Itoa(kinds["StmtComment"]), ""},
	}
	if _, ok := kinds["StmtWith"]; !ok {
		return nil, fmt.Errorf("C21: no constant StmtWith")
	}
	facts = append(facts, fact{"c21StmtWith", "Nat", strconv.Itoa(kinds["StmtWith"]), ""})

	// 2b. PreviewMainStatement: for { switch Preview(sql) { StmtComment: strip the opener; StmtWith: follow
	// withMainStatement, StmtWith when it cannot; default: return the type } }
	pm := c21FindFunc(af, "PreviewMainStatement")
	if pm == nil || len(pm.Body.List) != 1 {
		return nil, fmt.Errorf("C21: parser.PreviewMainStatement not found or of unexpected shape")
	}
	loop, ok := pm.Body.List[0].(*ast.ForStmt)
	if !ok || loop.Cond != nil || loop.Init != nil || loop.Post != nil || len(loop.Body.List) != 2 {
		return nil, fmt.Errorf("C21: PreviewMainStatement is not a bare for loop of two statements")
	}
	if a, ok := loop.Body.List[0].(*ast.AssignStmt); !ok || c21ExprString(a.Lhs[0]) != "stmtType" || c21ExprString(a.Rhs[0]) != "Preview(sql)" {
		return nil, fmt.Errorf("C21: PreviewMainStatement does not start with stmtType := Preview(sql)")
	}
	msw, ok := loop.Body.List[1].(*ast.SwitchStmt)
	if !ok || c21ExprString(msw.Tag) != "stmtType" || len(msw.Body.List) != 3 {
		return nil, fmt.Errorf("C21: PreviewMainStatement does not switch on stmtType with three cases")
	}
	var mcases []string
	for _, c := range msw.Body.List {
		cc := c.(*ast.CaseClause)
		if cc.List == nil {
			if len(cc.Body) != 1 {
				return nil, fmt.Errorf("C21: default case of PreviewMainStatement")
			}
			if r, ok := cc.Body[0].(*ast.ReturnStmt); !ok || len(r.Results) != 1 || c21ExprString(r.Results[0]) != "stmtType" {
				return nil, fmt.Errorf("C21: default case of PreviewMainStatement does not return stmtType")
			}
			mcases = append(mcases, "default")
			continue
		}
		if len(cc.List) != 1 {
			return nil, fmt.Errorf("C21: case list of PreviewMainStatement")
		}
		mcases = append(mcases, c21ExprString(cc.List[0]))
		switch c21ExprString(cc.List[0]) {
		case "StmtComment":
			if a, ok := cc.Body[0].(*ast.AssignStmt); len(cc.Body) != 1 || !ok || c21ExprString(a.Lhs[0]) != "sql" ||
				c21ExprString(a.Rhs[0]) != "specCodeStart.ReplaceAllString(StripLeadingComments(sql),\"\")" {
				return nil, fmt.Errorf("C21: StmtComment case of PreviewMainStatement")
			}
		case "StmtWith":
			if len(cc.Body) != 4 {
				return nil, fmt.Errorf("C21: StmtWith case of PreviewMainStatement has %d statements", len(cc.Body))
			}
			a, ok := cc.Body[1].(*ast.AssignStmt)
			if !ok || len(a.Lhs) != 2 || c21ExprString(a.Rhs[0]) != "withMainStatement(strings.TrimLeftFunc(StripLeadingComments(sql),isNotLetter))" {
				return nil, fmt.Errorf("C21: StmtWith case of PreviewMainStatement does not call withMainStatement on the text from its first letter")
			}
			ifs, ok := cc.Body[2].(*ast.IfStmt)
			if !ok || c21ExprString(ifs.Cond) != "!ok" || len(ifs.Body.List) != 1 {
				return nil, fmt.Errorf("C21: StmtWith case of PreviewMainStatement: no `if !ok`")
			}
			if r, ok := ifs.Body.List[0].(*ast.ReturnStmt); !ok || c21ExprString(r.Results[0]) != "StmtWith" {
				return nil, fmt.Errorf("C21: StmtWith case of PreviewMainStatement does not answer StmtWith when no statement is found")
			}
			if a2, ok := cc.Body[3].(*ast.AssignStmt); !ok || c21ExprString(a2.Lhs[0]) != "sql" || c21ExprString(a2.Rhs[0]) != "main" {
				return nil, fmt.Errorf("C21: StmtWith case of PreviewMainStatement does not go on with the main statement")
			}
		}
	}
	if strings.Join(mcases, ",") != "StmtComment,StmtWith,default" {
		return nil, fmt.Errorf("C21: PreviewMainStatement has cases [%s]", strings.Join(mcases, ","))
	}
	facts = append(facts, fact{"c21MainShape", "Bool", "true", "PreviewMainStatement = for { switch Preview(sql) { StmtComment: drop the opener; StmtWith: withMainStatement from the first letter, StmtWith when not found; default: return } }"})

	// 3. isSQLNotAllowedByUser
	ef, err := parser.ParseFile(fset, filepath.Join(repo, "proxy", "server", "executor.go"), nil, 0)
	if err != nil {
		return nil, err
	}
	na := c21FindFunc(ef, "isSQLNotAllowedByUser")
	if na == nil || len(na.Body.List) != 2 {
		return nil, fmt.Errorf("C21: isSQLNotAllowedByUser not found or of unexpected shape")
	}
	ifs, ok := na.Body.List[0].(*ast.IfStmt)
	if !ok || c21ExprString(ifs.Cond) != "c.GetNamespace().IsAllowWrite(c.user)" || len(ifs.Body.List) != 1 {
		return nil, fmt.Errorf("C21: isSQLNotAllowedByUser does not start with the IsAllowWrite test")
	}
	if r, ok := ifs.Body.List[0].(*ast.ReturnStmt); !ok || c21ExprString(r.Results[0]) != "false" {
		return nil, fmt.Errorf("C21: IsAllowWrite branch does not return false")
	}
	ret, ok := na.Body.List[1].(*ast.ReturnStmt)
	if !ok || len(ret.Results) != 1 {
		return nil, fmt.Errorf("C21: isSQLNotAllowedByUser does not end with a return")
	}
	var rejected []string
	var walk func(e ast.Expr) error
	walk = func(e ast.Expr) error {
		be, ok := e.(*ast.BinaryExpr)
		if !ok {
			return fmt.Errorf("C21: unexpected operand %s in isSQLNotAllowedByUser", c21ExprString(e))
		}
		switch be.Op {
		case token.LOR:
			if err := walk(be.X); err != nil {
				return err
			}
			return walk(be.Y)
		case token.EQL:
			if c21ExprString(be.X) != "stmtType" {
				return fmt.Errorf("C21: comparison of %s in isSQLNotAllowedByUser", c21ExprString(be.X))
			}
			name := strings.TrimPrefix(c21ExprString(be.Y), "parser.")
			k, ok := kinds[name]
			if !ok {
				return fmt.Errorf("C21: unknown kind %s in isSQLNotAllowedByUser", name)
			}
			rejected = append(rejected, strconv.Itoa(k))
			return nil
		}
		return fmt.Errorf("C21: unexpected operator in isSQLNotAllowedByUser")
	}
	if err := walk(ret.Results[0]); err != nil {
		return nil, err
	}
	facts = append(facts, fact{"c21NotAllowed", "List Nat", "[" + strings.Join(rejected, ", ") + "]", "kinds isSQLNotAllowedByUser rejects for a user without write permission"})

	// 4. structure of the entry paths
	hf, err := parser.ParseFile(fset, filepath.Join(repo, "proxy", "server", "executor_handle.go"), nil, 0)
	if err != nil {
		return nil, err
	}
	dq := c21FindFunc(hf, "doQuery")
	if dq == nil || len(dq.Body.List) == 0 {
		return nil, fmt.Errorf("C21: doQuery not found")
	}
	first, ok := dq.Body.List[0].(*ast.IfStmt)
	if !ok || first.Init == nil || len(first.Body.List) != 1 {
		return nil, fmt.Errorf("C21: doQuery does not start with `if err := se.checkSQLAllowed(reqCtx, sql); err != nil { return nil, err }`")
	}
	as, ok := first.Init.(*ast.AssignStmt)
	if !ok || len(as.Rhs) != 1 || c21ExprString(as.Rhs[0]) != "se.checkSQLAllowed(reqCtx,sql)" || c21ExprString(first.Cond) != "err!=nil" {
		return nil, fmt.Errorf("C21: doQuery does not start with the checkSQLAllowed test")
	}
	if r, ok := first.Body.List[0].(*ast.ReturnStmt); !ok || len(r.Results) != 2 || c21ExprString(r.Results[0]) != "nil" || c21ExprString(r.Results[1]) != "err" {
		return nil, fmt.Errorf("C21: doQuery does not return the error of checkSQLAllowed")
	}
	facts = append(facts, fact{"c21DoQueryChecksFirst", "Bool", "true", "doQuery's first statement returns the error of checkSQLAllowed(reqCtx, sql)"})

	// checkSQLAllowed: Preview, the look inside /*! */, isSQLNotAllowedByUser, in this order, before anything else
	cs := c21FindFunc(hf, "checkSQLAllowed")
	if cs == nil || len(cs.Body.List) < 5 {
		return nil, fmt.Errorf("C21: checkSQLAllowed not found or too short")
	}
	shape := []string{}
	for _, st := range cs.Body.List[:5] {
		switch x := st.(type) {
		case *ast.AssignStmt:
			shape = append(shape, c21ExprString(x.Lhs[0])+":="+c21ExprString(x.Rhs[0]))
		case *ast.ExprStmt:
			shape = append(shape, c21ExprString(x.X))
		case *ast.IfStmt:
			shape = append(shape, "if "+c21ExprString(x.Cond))
		}
	}
	wantShape := []string{"stmtType:=parser.Preview(sql)", "reqCtx.SetStmtType(stmtType)", "checkedType:=stmtType",
		"if stmtType==parser.StmtComment||stmtType==parser.StmtWith", "if isSQLNotAllowedByUser(se,checkedType)"}
	if strings.Join(shape, " ; ") != strings.Join(wantShape, " ; ") {
		return nil, fmt.Errorf("C21: checkSQLAllowed has shape [%s], expected [%s]", strings.Join(shape, " ; "), strings.Join(wantShape, " ; "))
	}
	inner := cs.Body.List[3].(*ast.IfStmt)
	if len(inner.Body.List) != 1 {
		return nil, fmt.Errorf("C21: unexpected body of the StmtComment/StmtWith branch of checkSQLAllowed")
	}
	if a, ok := inner.Body.List[0].(*ast.AssignStmt); !ok || c21ExprString(a.Lhs[0]) != "checkedType" || c21ExprString(a.Rhs[0]) != "parser.PreviewMainStatement(sql)" {
		return nil, fmt.Errorf("C21: the StmtComment/StmtWith branch of checkSQLAllowed does not preview the main statement")
	}
	facts = append(facts, fact{"c21CheckShape", "Bool", "true", "checkSQLAllowed = Preview; (StmtComment or StmtWith → PreviewMainStatement); isSQLNotAllowedByUser → error"})

	// getPlan: the tree the parser returns goes through isSQLNotAllowedByUser before the plan is built from it
	gp := c21FindFunc(hf, "getPlan")
	if gp == nil {
		return nil, fmt.Errorf("C21: getPlan not found")
	}
	iParse, iCheck, iBuild := -1, -1, -1
	for i, st := range gp.Body.List {
		switch x := st.(type) {
		case *ast.AssignStmt:
			if len(x.Rhs) == 1 {
				switch {
				case c21ExprString(x.Rhs[0]) == "se.Parse(sql)" && len(x.Lhs) == 2 && c21ExprString(x.Lhs[0]) == "n":
					iParse = i
				case strings.HasPrefix(c21ExprString(x.Rhs[0]), "plan.BuildPlan(n,"):
					iBuild = i
				}
			}
		case *ast.IfStmt:
			if c21ExprString(x.Cond) == "isSQLNotAllowedByUser(se,stmtTypeOfNode(n))" && len(x.Body.List) == 1 {
				if r, ok := x.Body.List[0].(*ast.ReturnStmt); ok && len(r.Results) == 2 && c21ExprString(r.Results[0]) == "nil" &&
					strings.HasPrefix(c21ExprString(r.Results[1]), "fmt.Errorf(") {
					iCheck = i
				}
			}
		}
	}
	if !(0 <= iParse && iParse < iCheck && iCheck < iBuild) {
		return nil, fmt.Errorf("C21: getPlan does not check the parsed tree between se.Parse and plan.BuildPlan (positions %d %d %d)", iParse, iCheck, iBuild)
	}
	facts = append(facts, fact{"c21PlanChecksTree", "Bool", "true", "getPlan: n := se.Parse(sql); ...; if isSQLNotAllowedByUser(se, stmtTypeOfNode(n)) { return nil, error }; ...; plan.BuildPlan(n, ...)"})
	// stmtTypeOfNode: node type -> kind
	tn := c21FindFunc(ef, "stmtTypeOfNode")
	if tn == nil || len(tn.Body.List) != 2 {
		return nil, fmt.Errorf("C21: stmtTypeOfNode not found or of unexpected shape")
	}
	tsw, ok := tn.Body.List[0].(*ast.TypeSwitchStmt)
	if !ok {
		return nil, fmt.Errorf("C21: stmtTypeOfNode does not start with a type switch")
	}
	if r, ok := tn.Body.List[1].(*ast.ReturnStmt); !ok || c21ExprString(r.Results[0]) != "parser.StmtUnknown" {
		return nil, fmt.Errorf("C21: stmtTypeOfNode does not end with return parser.StmtUnknown")
	}
	var nodeKinds []string
	for _, c := range tsw.Body.List {
		cc := c.(*ast.CaseClause)
		if cc.List == nil {
			return nil, fmt.Errorf("C21: default clause in stmtTypeOfNode")
		}
		var rets []string
		ast.Inspect(cc, func(n ast.Node) bool {
			if r, ok := n.(*ast.ReturnStmt); ok && len(r.Results) == 1 {
				rets = append(rets, strings.TrimPrefix(c21ExprString(r.Results[0]), "parser."))
			}
			return true
		})
		if len(rets) == 0 {
			return nil, fmt.Errorf("C21: case without return in stmtTypeOfNode")
		}
		for _, e := range cc.List {
			for _, rname := range rets {
				k, ok := kinds[rname]
				if !ok {
					return nil, fmt.Errorf("C21: unknown kind %s in stmtTypeOfNode", rname)
				}
				nodeKinds = append(nodeKinds, fmt.Sprintf("(%q, %d)", strings.TrimPrefix(c21ExprString(e), "*"), k))
			}
		}
	}
	facts = append(facts, fact{"c21NodeKinds", "List (String × Nat)", "[" + strings.Join(nodeKinds, ", ") + "]", "stmtTypeOfNode: node type of the parsed statement, Preview kind it is checked as"})

	// every call of doQuery / handleQuery in the package, by enclosing function
	calls := map[string][]string{}
	for _, file := range []string{"executor_handle.go", "executor_stmt.go", "executor.go", "session.go"} {
		f, err := parser.ParseFile(fset, filepath.Join(repo, "proxy", "server", file), nil, 0)
		if err != nil {
			return nil, err
		}
		for _, d := range f.Decls {
			fd, ok := d.(*ast.FuncDecl)
			if !ok || fd.Body == nil {
				continue
			}
			ast.Inspect(fd.Body, func(n ast.Node) bool {
				if c, ok := n.(*ast.CallExpr); ok {
					if s, ok := c.Fun.(*ast.SelectorExpr); ok && (s.Sel.Name == "doQuery" || s.Sel.Name == "doMultiStmts") {
						calls[fd.Name.Name] = append(calls[fd.Name.Name], c21ExprString(c))
					}
				}
				return true
			})
		}
	}
	want := map[string]string{
		"handleQuery":  "se.doMultiStmts(reqCtx,sql) se.doQuery(reqCtx,sql)",
		"doMultiStmts": "se.doQuery(reqCtx,sql) se.doQuery(reqCtx,piece)",
	}
	for fn, w := range want {
		if strings.Join(calls[fn], " ") != w {
			return nil, fmt.Errorf("C21: %s calls [%s], expected [%s]", fn, strings.Join(calls[fn], " "), w)
		}
	}
	for fn := range calls {
		if _, ok := want[fn]; !ok {
			return nil, fmt.Errorf("C21: unexpected caller %s of doQuery/doMultiStmts", fn)
		}
	}
	sf, err := parser.ParseFile(fset, filepath.Join(repo, "proxy", "server", "executor_stmt.go"), nil, 0)
	if err != nil {
		return nil, err
	}
	hs := c21FindFunc(sf, "handleStmtExecute")
	if hs == nil {
		return nil, fmt.Errorf("C21: handleStmtExecute not found")
	}
	lastSt, ok := hs.Body.List[len(hs.Body.List)-1].(*ast.ReturnStmt)
	if !ok || len(lastSt.Results) != 1 || c21ExprString(lastSt.Results[0]) != "se.handleQuery(reqCtx,executeSQL)" {
		return nil, fmt.Errorf("C21: handleStmtExecute does not end with return se.handleQuery(reqCtx, executeSQL)")
	}
	facts = append(facts, fact{"c21PathsShape", "Bool", "true", "handleQuery calls only doMultiStmts(sql)/doQuery(sql); doMultiStmts calls only doQuery(sql)/doQuery(piece); handleStmtExecute ends with handleQuery(executeSQL)"})

	// 5. Go's unicode tables: the Letter ranges and the non-ASCII runes whose lower case is ASCII
	var rs []string
	for _, r := range unicode.Letter.R16 {
		rs = append(rs, fmt.Sprintf("(%d, %d, %d)", r.Lo, r.Hi, r.Stride))
	}
	for _, r := range unicode.Letter.R32 {
		rs = append(rs, fmt.Sprintf("(%d, %d, %d)", r.Lo, r.Hi, r.Stride))
	}
	facts = append(facts, fact{"c21LetterRanges", "List (Nat × Nat × Nat)", "[\n  " + strings.Join(rs, ",\n  ") + "]", "unicode.Letter of the Go release the harness is built with (Unicode " + unicode.Version + ")"})
	var low []string
	for r := rune(0x80); r <= unicode.MaxRune; r++ {
		if l := unicode.ToLower(r); l < 0x80 {
			low = append(low, fmt.Sprintf("(%d, %d)", r, l))
		}
	}
	facts = append(facts, fact{"c21LowerToAscii", "List (Nat × Nat)", "[" + strings.Join(low, ", ") + "]", "every rune ≥ 0x80 whose unicode.ToLower is ASCII, with that lower case"})
	var sp []string
	for r := rune(0); r <= unicode.MaxRune; r++ {
		if unicode.IsSpace(r) {
			sp = append(sp, strconv.Itoa(int(r)))
		}
	}
	facts = append(facts, fact{"c21Spaces", "List Nat", "[" + strings.Join(sp, ", ") + "]", "every rune with unicode.IsSpace"})
	return facts, nil
}
