package extract

import (
	"fmt"
	"go/ast"
	"go/parser"
	"go/token"
	"path/filepath"
	"sort"
	"strconv"
	"strings"
)

// C13: the column type numbers and the UNSIGNED flag of mysql/type.go (the
// Lean model and the spec decoder are written against the protocol's numbers;
// theorem C13.type_codes_match ties them to the source), and the structural
// fact that the two writers of a COM_STMT_EXECUTE result convert the result
// with BuildBinaryResultSet when the response is binary.

func init() { register(extractC13) }

var c13TypeNames = []string{"TypeDecimal", "TypeTiny", "TypeShort", "TypeLong", "TypeFloat", "TypeDouble", "TypeNull",
	"TypeTimestamp", "TypeLonglong", "TypeInt24", "TypeDate", "TypeDuration", "TypeDatetime", "TypeYear", "TypeNewDate",
	"TypeVarchar", "TypeBit", "TypeJSON", "TypeNewDecimal", "TypeEnum", "TypeSet", "TypeTinyBlob", "TypeMediumBlob",
	"TypeLongBlob", "TypeBlob", "TypeVarString", "TypeString", "TypeGeometry"}

func c13ConstValue(e ast.Expr) (uint64, bool) {
	switch v := e.(type) {
	case *ast.BasicLit:
		if v.Kind != token.INT {
			return 0, false
		}
		n, err := strconv.ParseUint(v.Value, 0, 64)
		return n, err == nil
	case *ast.ParenExpr:
		return c13ConstValue(v.X)
	case *ast.BinaryExpr:
		a, ok1 := c13ConstValue(v.X)
		b, ok2 := c13ConstValue(v.Y)
		if !ok1 || !ok2 {
			return 0, false
		}
		switch v.Op {
		case token.SHL:
			return a << b, true
		case token.OR:
			return a | b, true
		case token.ADD:
			return a + b, true
		}
	}
	return 0, false
}

// c13CallsUnderIsBinary tells whether fn contains `if <x>.IsBinary|isBinary { … <y>.BuildBinaryResultSet() … }`.
func c13CallsUnderIsBinary(fn *ast.FuncDecl) bool {
	found := false
	ast.Inspect(fn, func(n ast.Node) bool {
		ifs, ok := n.(*ast.IfStmt)
		if !ok {
			return true
		}
		isBin := false
		switch c := ifs.Cond.(type) {
		case *ast.SelectorExpr:
			isBin = c.Sel.Name == "IsBinary"
		case *ast.Ident:
			isBin = c.Name == "isBinary"
		}
		if !isBin {
			return true
		}
		ast.Inspect(ifs.Body, func(m ast.Node) bool {
			if call, ok := m.(*ast.CallExpr); ok {
				if sel, ok := call.Fun.(*ast.SelectorExpr); ok && sel.Sel.Name == "BuildBinaryResultSet" {
					found = true
				}
			}
			return true
		})
		return true
	})
	return found
}

func c13FindFunc(repo, rel, recv, name string) (*ast.FuncDecl, error) {
	fset := token.NewFileSet()
	f, err := parser.ParseFile(fset, filepath.Join(repo, rel), nil, 0)
	if err != nil {
		return nil, err
	}
	for _, d := range f.Decls {
		fn, ok := d.(*ast.FuncDecl)
		if !ok || fn.Name.Name != name || fn.Recv == nil || len(fn.Recv.List) != 1 {
			continue
		}
		t := fn.Recv.List[0].Type
		if st, ok := t.(*ast.StarExpr); ok {
			t = st.X
		}
		if id, ok := t.(*ast.Ident); ok && id.Name == recv {
			return fn, nil
		}
	}
	return nil, fmt.Errorf("C13: method (%s).%s not found in %s", recv, name, rel)
}

func extractC13(repo string) ([]fact, error) {
	fset := token.NewFileSet()
	f, err := parser.ParseFile(fset, filepath.Join(repo, "mysql", "type.go"), nil, 0)
	if err != nil {
		return nil, err
	}
	vals := map[string]uint64{}
	for _, d := range f.Decls {
		gd, ok := d.(*ast.GenDecl)
		if !ok || gd.Tok != token.CONST {
			continue
		}
		for _, sp := range gd.Specs {
			vs := sp.(*ast.ValueSpec)
			for i, n := range vs.Names {
				if i < len(vs.Values) {
					if v, ok := c13ConstValue(vs.Values[i]); ok {
						vals[n.Name] = v
					}
				}
			}
		}
	}
	var facts []fact
	for _, n := range append(append([]string{}, c13TypeNames...), "UnsignedFlag") {
		v, ok := vals[n]
		if !ok {
			return nil, fmt.Errorf("C13: constant %s with a literal value not found in mysql/type.go", n)
		}
		facts = append(facts, fact{name: "c13" + n, typ: "Nat", val: strconv.FormatUint(v, 10), doc: "mysql/type.go " + n})
	}
	// the two writers of a prepared-statement result
	wr, err := c13FindFunc(repo, "proxy/server/session.go", "Session", "writeResponse")
	if err != nil {
		return nil, err
	}
	ws, err := c13FindFunc(repo, "proxy/server/client_conn.go", "ClientConn", "writeOKResultStream")
	if err != nil {
		return nil, err
	}
	b := func(x bool) string {
		if x {
			return "true"
		}
		return "false"
	}
	more, err := extractC13Encoders(repo, vals)
	if err != nil {
		return nil, err
	}
	facts = append(facts, more...)
	facts = append(facts,
		fact{name: "c13WriteResponseBuildsBinary", typ: "Bool", val: b(c13CallsUnderIsBinary(wr)),
			doc: "proxy/server/session.go (*Session).writeResponse contains `if r.IsBinary { … rs.BuildBinaryResultSet() … }`"},
		fact{name: "c13ResultStreamBuildsBinary", typ: "Bool", val: b(c13CallsUnderIsBinary(ws)),
			doc: "proxy/server/client_conn.go (*ClientConn).writeOKResultStream contains `if isBinary { … BuildBinaryResultSet() … }`"})
	return facts, nil
}

// c13PlainFunc finds a top-level function (no receiver).
func c13PlainFunc(repo, rel, name string) (*ast.FuncDecl, error) {
	fset := token.NewFileSet()
	f, err := parser.ParseFile(fset, filepath.Join(repo, rel), nil, 0)
	if err != nil {
		return nil, err
	}
	for _, d := range f.Decls {
		if fn, ok := d.(*ast.FuncDecl); ok && fn.Recv == nil && fn.Name.Name == name {
			return fn, nil
		}
	}
	return nil, fmt.Errorf("C13: function %s not found in %s", name, rel)
}

func c13Calls(n ast.Node, name string) bool {
	found := false
	ast.Inspect(n, func(m ast.Node) bool {
		if call, ok := m.(*ast.CallExpr); ok {
			switch f := call.Fun.(type) {
			case *ast.Ident:
				found = found || f.Name == name
			case *ast.SelectorExpr:
				found = found || f.Sel.Name == name
			}
		}
		return true
	})
	return found
}

func c13NatList(xs []uint64) string {
	sort.Slice(xs, func(i, j int) bool { return xs[i] < xs[j] })
	var q []string
	for _, x := range xs {
		q = append(q, strconv.FormatUint(x, 10))
	}
	return "[" + strings.Join(q, ", ") + "]"
}

// extractC13Encoders reads, from the source, the tables the model of
// AppendBinaryValue / BuildBinaryResultset / writeColumnDefinition is written
// against:
//   - the column types of the append-phase clause of AppendBinaryValue that
//     sends a length-encoded string, and of the clause that appends the
//     bytes as they are (the temporal types);
//   - that BuildBinaryResultset guards AppendBinaryValue by integerFitsColumn;
//   - the members of mysql.Field that writeColumnDefinition writes after the
//     0x0c byte, in order.
func extractC13Encoders(repo string, consts map[string]uint64) ([]fact, error) {
	abv, err := c13PlainFunc(repo, "mysql/encoding.go", "AppendBinaryValue")
	if err != nil {
		return nil, err
	}
	// the last `switch fieldType { … }` at the top level of the body is the append phase
	var appendPhase *ast.SwitchStmt
	for _, st := range abv.Body.List {
		if sw, ok := st.(*ast.SwitchStmt); ok {
			if id, ok := sw.Tag.(*ast.Ident); ok && id.Name == "fieldType" {
				appendPhase = sw
			}
		}
	}
	if appendPhase == nil {
		return nil, fmt.Errorf("C13: append phase `switch fieldType` of AppendBinaryValue not found")
	}
	var lenEnc, raw []uint64
	for _, cl := range appendPhase.Body.List {
		cc := cl.(*ast.CaseClause)
		var tys []uint64
		for _, e := range cc.List {
			id, ok := e.(*ast.Ident)
			if !ok {
				return nil, fmt.Errorf("C13: a case of the append phase is not a type constant")
			}
			v, ok := consts[id.Name]
			if !ok {
				return nil, fmt.Errorf("C13: unknown type constant %s in the append phase", id.Name)
			}
			tys = append(tys, v)
		}
		body := &ast.BlockStmt{List: cc.Body}
		switch {
		case c13Calls(body, "AppendLenEncStringBytes"):
			lenEnc = append(lenEnc, tys...)
		case len(cc.List) > 0 && !c13Calls(body, "Errorf"):
			// `data = append(data, t...)` without a length check
			src := false
			ast.Inspect(body, func(m ast.Node) bool {
				if call, ok := m.(*ast.CallExpr); ok && call.Ellipsis.IsValid() {
					if id, ok := call.Fun.(*ast.Ident); ok && id.Name == "append" && len(call.Args) == 2 {
						if a, ok := call.Args[1].(*ast.Ident); ok && a.Name == "t" {
							src = true
						}
					}
				}
				return true
			})
			if src {
				raw = append(raw, tys...)
			}
		}
	}
	if len(lenEnc) == 0 || len(raw) == 0 {
		return nil, fmt.Errorf("C13: the length-encoded / raw clauses of the append phase were not recognised")
	}
	bld, err := c13PlainFunc(repo, "mysql/result.go", "BuildBinaryResultset")
	if err != nil {
		return nil, err
	}
	// `if !integerFitsColumn(…) { return nil, … }` somewhere before the AppendBinaryValue call of the same block
	guarded := false
	ast.Inspect(bld, func(n ast.Node) bool {
		blk, ok := n.(*ast.BlockStmt)
		if !ok {
			return true
		}
		seenGuard := false
		for _, st := range blk.List {
			if ifs, ok := st.(*ast.IfStmt); ok {
				if u, ok := ifs.Cond.(*ast.UnaryExpr); ok && u.Op == token.NOT && c13Calls(u.X, "integerFitsColumn") {
					ret := false
					for _, b := range ifs.Body.List {
						if _, ok := b.(*ast.ReturnStmt); ok {
							ret = true
						}
					}
					seenGuard = seenGuard || ret
					continue
				}
			}
			if seenGuard && c13Calls(st, "AppendBinaryValue") {
				guarded = true
			}
		}
		return true
	})
	wcd, err := c13FindFunc(repo, "proxy/server/client_conn.go", "ClientConn", "writeColumnDefinition")
	if err != nil {
		return nil, err
	}
	// the Write* calls after `mysql.WriteByte(data, pos, 0x0c)`: which member of `field` each writes
	var members []string
	after := false
	for _, st := range wcd.Body.List {
		as, ok := st.(*ast.AssignStmt)
		if !ok || len(as.Rhs) != 1 {
			continue
		}
		call, ok := as.Rhs[0].(*ast.CallExpr)
		if !ok {
			continue
		}
		sel, ok := call.Fun.(*ast.SelectorExpr)
		if !ok || !strings.HasPrefix(sel.Sel.Name, "Write") || len(call.Args) != 3 {
			continue
		}
		if lit, ok := call.Args[2].(*ast.BasicLit); ok && sel.Sel.Name == "WriteByte" && lit.Value == "0x0c" {
			after = true
			continue
		}
		if !after {
			continue
		}
		width := map[string]string{"WriteByte": "1", "WriteUint16": "2", "WriteUint32": "4"}[sel.Sel.Name]
		member := ""
		ast.Inspect(call.Args[2], func(m ast.Node) bool {
			if s2, ok := m.(*ast.SelectorExpr); ok {
				if id, ok := s2.X.(*ast.Ident); ok && id.Name == "field" {
					member = s2.Sel.Name
				}
			}
			return true
		})
		if member == "" {
			member = "0"
		}
		if width == "" {
			break
		}
		members = append(members, fmt.Sprintf("(%q, %s)", member, width))
	}
	if len(members) == 0 {
		return nil, fmt.Errorf("C13: the fixed-length part of writeColumnDefinition was not recognised")
	}
	b := func(x bool) string {
		if x {
			return "true"
		}
		return "false"
	}
	return []fact{
		{name: "c13LenEncAppendTypes", typ: "List Nat", val: c13NatList(lenEnc),
			doc: "mysql/encoding.go AppendBinaryValue, append phase: the column types sent by AppendLenEncStringBytes"},
		{name: "c13RawAppendTypes", typ: "List Nat", val: c13NatList(raw),
			doc: "mysql/encoding.go AppendBinaryValue, append phase: the column types whose bytes are appended as they are"},
		{name: "c13BuildChecksIntegerRange", typ: "Bool", val: b(guarded),
			doc: "mysql/result.go BuildBinaryResultset returns an error when !integerFitsColumn(…) before it calls AppendBinaryValue"},
		{name: "c13ColumnDefFixedPart", typ: "List (String × Nat)", val: "[" + strings.Join(members, ", ") + "]",
			doc: "proxy/server/client_conn.go writeColumnDefinition: the members of the field written after the 0x0c byte, with their widths"},
	}, nil
}
