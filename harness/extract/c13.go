package extract

import (
	"fmt"
	"go/ast"
	"go/parser"
	"go/token"
	"path/filepath"
	"strconv"
)

// C13: the column type numbers and the UNSIGNED flag of mysql/type.go (the
// Lean model and the spec decoder are written against the protocol's numbers;
// theorem C13.type_codes_match ties them to the source), and the structural
// fact that the two writers of a COM_STMT_EXECUTE result convert the result
// with BuildBinaryResultSet when the response is binary.

func init() { register(extractC13) }

var c13TypeNames = []string{"TypeDecimal", "TypeTiny", "TypeShort", "TypeLong", "TypeFloat", "TypeDouble", "TypeNull",
	"TypeTimestamp", "TypeLonglong", "TypeInt24", "TypeDate", "TypeDuration", "TypeDatetime", "TypeYear", "TypeNewDate",
	"TypeVarchar", "TypeBit", "TypeJSON", "TypeNewDecimal", "TypeEnum", "TypeSet", "TypeTinyBlob", "TypeMediumBlob",
	"TypeLongBlob", "TypeBlob", "TypeVarString", "TypeString", "TypeGeometry"}

func c13ConstValue(e ast.Expr) (uint64, bool) {
	switch v := e.(type) {
	case *ast.BasicLit:
		if v.Kind != token.INT {
			return 0, false
		}
		n, err := strconv.ParseUint(v.Value, 0, 64)
		return n, err == nil
	case *ast.ParenExpr:
		return c13ConstValue(v.X)
	case *ast.BinaryExpr:
		a, ok1 := c13ConstValue(v.X)
		b, ok2 := c13ConstValue(v.Y)
		if !ok1 || !ok2 {
			return 0, false
		}
		switch v.Op {
		case token.SHL:
			return a << b, true
		case token.OR:
			return a | b, true
		case token.ADD:
			return a + b, true
		}
	}
	return 0, false
}

// c13CallsUnderIsBinary tells whether fn contains `if <x>.IsBinary|isBinary { … <y>.BuildBinaryResultSet() … }`.
func c13CallsUnderIsBinary(fn *ast.FuncDecl) bool {
	found := false
	ast.Inspect(fn, func(n ast.Node) bool {
		ifs, ok := n.(*ast.IfStmt)
		if !ok {
			return true
		}
		isBin := false
		switch c := ifs.Cond.(type) {
		case *ast.SelectorExpr:
			isBin = c.Sel.Name == "IsBinary"
		case *ast.Ident:
			isBin = c.Name == "isBinary"
		}
		if !isBin {
			return true
		}
		ast.Inspect(ifs.Body, func(m ast.Node) bool {
			if call, ok := m.(*ast.CallExpr); ok {
				if sel, ok := call.Fun.(*ast.SelectorExpr); ok && sel.Sel.Name == "BuildBinaryResultSet" {
					found = true
				}
			}
			return true
		})
		return true
	})
	return found
}

func c13FindFunc(repo, rel, recv, name string) (*ast.FuncDecl, error) {
	fset := token.NewFileSet()
	f, err := parser.ParseFile(fset, filepath.Join(repo, rel), nil, 0)
	if err != nil {
		return nil, err
	}
	for _, d := range f.Decls {
		fn, ok := d.(*ast.FuncDecl)
		if !ok || fn.Name.Name != name || fn.Recv == nil || len(fn.Recv.List) != 1 {
			continue
		}
		t := fn.Recv.List[0].Type
		if st, ok := t.(*ast.StarExpr); ok {
			t = st.X
		}
		if id, ok := t.(*ast.Ident); ok && id.Name == recv {
			return fn, nil
		}
	}
	return nil, fmt.Errorf("C13: method (%s).%s not found in %s", recv, name, rel)
}

func extractC13(repo string) ([]fact, error) {
	fset := token.NewFileSet()
	f, err := parser.ParseFile(fset, filepath.Join(repo, "mysql", "type.go"), nil, 0)
	if err != nil {
		return nil, err
	}
	vals := map[string]uint64{}
	for _, d := range f.Decls {
		gd, ok := d.(*ast.GenDecl)
		if !ok || gd.Tok != token.CONST {
			continue
		}
		for _, sp := range gd.Specs {
			vs := sp.(*ast.ValueSpec)
			for i, n := range vs.Names {
				if i < len(vs.Values) {
					if v, ok := c13ConstValue(vs.Values[i]); ok {
						vals[n.Name] = v
					}
				}
			}
		}
	}
	var facts []fact
	for _, n := range append(append([]string{}, c13TypeNames...), "UnsignedFlag") {
		v, ok := vals[n]
		if !ok {
			return nil, fmt.Errorf("C13: constant %s with a literal value not found in mysql/type.go", n)
		}
		facts = append(facts, fact{name: "c13" + n, typ: "Nat", val: strconv.FormatUint(v, 10), doc: "mysql/type.go " + n})
	}
	// the two writers of a prepared-statement result
	wr, err := c13FindFunc(repo, "proxy/server/session.go", "Session", "writeResponse")
	if err != nil {
		return nil, err
	}
	ws, err := c13FindFunc(repo, "proxy/server/client_conn.go", "ClientConn", "writeOKResultStream")
	if err != nil {
		return nil, err
	}
	b := func(x bool) string {
		if x {
			return "true"
		}
		return "false"
	}
	facts = append(facts,
		fact{name: "c13WriteResponseBuildsBinary", typ: "Bool", val: b(c13CallsUnderIsBinary(wr)),
			doc: "proxy/server/session.go (*Session).writeResponse contains `if r.IsBinary { … rs.BuildBinaryResultSet() … }`"},
		fact{name: "c13ResultStreamBuildsBinary", typ: "Bool", val: b(c13CallsUnderIsBinary(ws)),
			doc: "proxy/server/client_conn.go (*ClientConn).writeOKResultStream contains `if isBinary { … BuildBinaryResultSet() … }`"})
	return facts, nil
}
