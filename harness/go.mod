module gaeaverif/harness

go 1.21

require github.com/XiaoMi/Gaea v0.0.0

require (
	github.com/pingcap/errors v0.11.1 // indirect
	github.com/shopspring/decimal v1.3.1 // indirect
)

replace github.com/XiaoMi/Gaea => /repo

replace github.com/dgrijalva/jwt-go => github.com/golang-jwt/jwt v3.2.2-0.20210713063142-860640e8862d+incompatible
