module gaeaverif/harness

go 1.22.0

toolchain go1.23.5

require (
	github.com/XiaoMi/Gaea v0.0.0
	github.com/shopspring/decimal v1.3.1
	golang.org/x/tools v0.29.0
)

require (
	github.com/beorn7/perks v1.0.1 // indirect
	github.com/bytedance/mockey v1.2.11 // indirect
	github.com/cespare/xxhash/v2 v2.1.1 // indirect
	github.com/coreos/etcd v3.3.13+incompatible // indirect
	github.com/coreos/go-semver v0.2.0 // indirect
	github.com/cznic/mathutil v0.0.0-20181122101859-297441e03548 // indirect
	github.com/davecgh/go-spew v1.1.1 // indirect
	github.com/emirpasic/gods v1.12.0 // indirect
	github.com/gin-contrib/gzip v0.0.1 // indirect
	github.com/gin-contrib/sse v0.1.0 // indirect
	github.com/gin-gonic/gin v1.7.7 // indirect
	github.com/go-ini/ini v1.42.0 // indirect
	github.com/go-playground/locales v0.13.0 // indirect
	github.com/go-playground/universal-translator v0.17.0 // indirect
	github.com/go-playground/validator/v10 v10.8.0 // indirect
	github.com/gogo/protobuf v1.3.2 // indirect
	github.com/golang/mock v1.4.4 // indirect
	github.com/golang/protobuf v1.5.2 // indirect
	github.com/google/uuid v1.6.0 // indirect
	github.com/hashicorp/go-version v1.6.0 // indirect
	github.com/json-iterator/go v1.1.11 // indirect
	github.com/jtolds/gls v4.20.0+incompatible // indirect
	github.com/leodido/go-urn v1.2.1 // indirect
	github.com/lestrrat-go/file-rotatelogs v2.4.0+incompatible // indirect
	github.com/lestrrat-go/strftime v1.0.6 // indirect
	github.com/mattn/go-isatty v0.0.13 // indirect
	github.com/matttproud/golang_protobuf_extensions v1.0.1 // indirect
	github.com/modern-go/concurrent v0.0.0-20180306012644-bacd9c7ef1dd // indirect
	github.com/modern-go/reflect2 v1.0.1 // indirect
	github.com/pingcap/errors v0.11.1 // indirect
	github.com/pingcap/tipb v0.0.0-20190226124958-833c2ffd2fe7 // indirect
	github.com/pkg/errors v0.9.1 // indirect
	github.com/pmezard/go-difflib v1.0.0 // indirect
	github.com/prometheus/client_golang v1.11.1 // indirect
	github.com/prometheus/client_model v0.2.0 // indirect
	github.com/prometheus/common v0.26.0 // indirect
	github.com/prometheus/procfs v0.6.0 // indirect
	github.com/remyoudompheng/bigfft v0.0.0-20190321074620-2f0d2b0e0001 // indirect
	github.com/shirou/gopsutil v2.20.9+incompatible // indirect
	github.com/smartystreets/assertions v0.0.0-20180927180507-b2de0cb4f26d // indirect
	github.com/smartystreets/goconvey v1.6.4 // indirect
	github.com/stretchr/objx v0.5.0 // indirect
	github.com/stretchr/testify v1.8.1 // indirect
	github.com/ugorji/go/codec v1.1.7 // indirect
	go.uber.org/atomic v1.4.0 // indirect
	go.uber.org/multierr v1.1.0 // indirect
	go.uber.org/zap v1.10.0 // indirect
	golang.org/x/arch v0.0.0-20201008161808-52c3e6f60cff // indirect
	golang.org/x/crypto v0.0.0-20210921155107-089bfa567519 // indirect
	golang.org/x/mod v0.22.0 // indirect
	golang.org/x/net v0.34.0 // indirect
	golang.org/x/sync v0.10.0 // indirect
	golang.org/x/sys v0.29.0 // indirect
	golang.org/x/text v0.3.7 // indirect
	golang.org/x/time v0.0.0-20181108054448-85acf8d2951c // indirect
	google.golang.org/genproto v0.0.0-20180817151627-c66870c02cf8 // indirect
	google.golang.org/grpc v1.21.0 // indirect
	google.golang.org/protobuf v1.28.0 // indirect
	gopkg.in/yaml.v2 v2.4.0 // indirect
	gopkg.in/yaml.v3 v3.0.1 // indirect
)

replace github.com/XiaoMi/Gaea => /repo

replace github.com/dgrijalva/jwt-go => github.com/golang-jwt/jwt v3.2.2-0.20210713063142-860640e8862d+incompatible

// golang.org/x/tools (the typed translator of C07) asks for a newer golang.org/x/net than the one
// the repository is built with; nothing it is used for here needs it
replace golang.org/x/net v0.34.0 => golang.org/x/net v0.0.0-20220722155237-a158d28d115b
